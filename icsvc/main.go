package main

import (
	"runtime"
	"encoding/json"
	"flag"
	"fmt"
	"go/token"
	"go/types"
	"os"
	"path/filepath"
	"regexp"
	"sort"
	"strings"
	"sync"
	"time"

	"golang.org/x/tools/go/packages"
	"golang.org/x/tools/go/ssa"
	"golang.org/x/tools/go/ssa/ssautil"
)

var repoPkgs = []string{
	"./x/ccv/types", "./x/ccv/provider", "./x/ccv/provider/keeper", "./x/ccv/provider/types",
	"./x/ccv/consumer", "./x/ccv/consumer/keeper", "./x/ccv/consumer/types",
	"./x/ccv/no_valupdates_staking", "./x/ccv/no_valupdates_genutil",
}

type Loaded struct {
	prog  *ssa.Program
	fset  *token.FileSet
	pkgs  []*packages.Package
	spkgs []*ssa.Package
	cs    *ContractSet
	repo  string
	contractFiles []string
}

func loadRepo(repo string) (*Loaded, error) {
	fset := token.NewFileSet()
	cfg := &packages.Config{Mode: packages.LoadSyntax | packages.NeedModule, Dir: repo, BuildFlags: []string{"-tags=verif"}, Fset: fset,
		Env: append(os.Environ(), "GOFLAGS=-mod=mod", "GOPROXY=off")}
	pkgs, err := packages.Load(cfg, repoPkgs...)
	if err != nil {
		return nil, err
	}
	nerr := 0
	for _, p := range pkgs {
		for _, e := range p.Errors {
			fmt.Fprintf(os.Stderr, "load error: %v\n", e)
			nerr++
		}
	}
	if nerr > 0 {
		return nil, fmt.Errorf("%d package load errors (the tree under test does not type-check)", nerr)
	}
	prog, spkgs := ssautil.Packages(pkgs, ssa.NaiveForm|ssa.GlobalDebug)
	for _, p := range spkgs {
		if p != nil {
			p.Build()
		}
	}
	for _, p := range pkgs {
		m := map[string]string{}
		for _, f := range p.Syntax {
			for _, is := range f.Imports {
				path := strings.Trim(is.Path.Value, "\"")
				alias := ""
				if is.Name != nil {
					alias = is.Name.Name
				} else if ip, ok := p.Imports[path]; ok {
					alias = ip.Name
				}
				if alias == "" || alias == "_" || alias == "." {
					continue
				}
				if _, dup := m[alias]; !dup {
					m[alias] = path
				}
			}
		}
		fileImports[p.PkgPath] = m
	}
	ld := &Loaded{prog: prog, fset: fset, pkgs: pkgs, spkgs: spkgs, repo: repo, cs: NewContractSet()}
	return ld, nil
}

var importLine = regexp.MustCompile(`^//@\s*import\s+(\w+)\s+"([^"]+)"`)

// loadContracts reads every verif_contracts*.go below x/ccv; the //@ func names are relative to the package directory.
func (ld *Loaded) loadContracts(mirror string) error {
	root := filepath.Join(ld.repo, "x", "ccv")
	var files []string
	filepath.Walk(root, func(p string, info os.FileInfo, err error) error {
		if err == nil && !info.IsDir() && strings.HasPrefix(info.Name(), "verif_contracts") && strings.HasSuffix(info.Name(), ".go") {
			files = append(files, p)
		}
		return nil
	})
	if len(files) == 0 && mirror != "" {
		filepath.Walk(mirror, func(p string, info os.FileInfo, err error) error {
			if err == nil && !info.IsDir() && strings.HasSuffix(info.Name(), ".go") {
				files = append(files, p)
			}
			return nil
		})
		root = mirror
	}
	sort.Strings(files)
	ld.contractFiles = files
	for _, f := range files {
		b, err := os.ReadFile(f)
		if err != nil {
			return err
		}
		rel, _ := filepath.Rel(root, filepath.Dir(f))
		rel = filepath.ToSlash(rel)
		// prefix func names with the package dir
		var sb strings.Builder
		pkgPath := "github.com/cosmos/interchain-security/v7/x/ccv/" + rel
		for _, line := range strings.Split(string(b), "\n") {
			t := strings.TrimSpace(line)
			if m := importLine.FindStringSubmatch(t); m != nil {
				if contractImports[pkgPath] == nil {
					contractImports[pkgPath] = map[string]string{}
				}
				contractImports[pkgPath][m[1]] = m[2]
				sb.WriteString("\n")
				continue
			}
			if strings.HasPrefix(t, "//@ func ") {
				rest := strings.TrimSpace(strings.TrimPrefix(t, "//@ func "))
				line = "//@ func " + rel + "." + rest
			}
			sb.WriteString(line + "\n")
		}
		if err := ld.cs.ParseContractText(f, sb.String()); err != nil {
			return err
		}
	}
	return nil
}

func (ld *Loaded) findFunc(key string) *ssa.Function {
	// key: "provider/keeper.Keeper.Method" or "provider/keeper.func"
	j := strings.Index(key, ".")
	if j < 0 {
		return nil
	}
	dir, rest := key[:j], key[j+1:]
	for _, p := range ld.spkgs {
		if p == nil || !strings.HasSuffix(p.Pkg.Path(), "/x/ccv/"+dir) {
			continue
		}
		if !strings.Contains(rest, ".") {
			return p.Func(rest)
		}
		parts := strings.SplitN(rest, ".", 2)
		tm, ok := p.Members[parts[0]].(*ssa.Type)
		if !ok {
			return nil
		}
		for _, T := range []types.Type{tm.Type(), types.NewPointer(tm.Type())} {
			ms := ld.prog.MethodSets.MethodSet(T)
			for i := 0; i < ms.Len(); i++ {
				if ms.At(i).Obj().Name() == parts[1] {
					fn := ld.prog.MethodValue(ms.At(i))
					if fn != nil && fn.Synthetic == "" {
						return fn
					}
					if fn != nil && fn.Synthetic != "" {
						// wrapper for a value-receiver method reached through the pointer method set
						continue
					}
				}
			}
		}
	}
	return nil
}

func newExec(ld *Loaded) *Exec {
	return &Exec{prog: ld.prog, fset: ld.fset, contracts: ld.cs, warnings: map[string]int{}, globals: map[*ssa.Global]*Obj{},
		inlineMax: 14, maxStates: 12000, loopInfo: map[*ssa.Function]*LoopInfo{}, pureCache: map[*ssa.Function]*effectSummary{},
		useContracts: true, noContractFor: map[string]bool{}, assumed: map[string]int{},
		initDone: map[*ssa.Package]bool{}, inInit: map[*ssa.Package]bool{}, globalVals: map[*ssa.Global]*Term{}, initStates: map[*ssa.Package]*State{},
		iterPrefix: map[string]*Term{}, arrayFam: map[string]int{}, wsCache: map[*ssa.Function]*WriteSet{}, precallSeen: map[string]bool{}, joins: map[*ssa.Function]*joinInfo{}, noMerge: os.Getenv("ICSVC_NOMERGE") != ""}
}

// ---------------------------------------------------------------- property specs

type PropFunc struct {
	Func  string   `json:"func"`
	Claim []string `json:"claim"` // obligation kinds claimed: ensures loop pre nopanic overflow lemma
	Note  string   `json:"note,omitempty"`
	Only  string   `json:"only,omitempty"` // regexp: obligations of this function that belong to the property
}

type PropSpec struct {
	ID        string     `json:"id"`
	Functions []PropFunc `json:"functions"`
	Lemmas    []string   `json:"lemmas"`
	KeyLemmas bool       `json:"key_lemmas"`
	Sweeps    []string   `json:"sweeps"`
	Trusted   []string   `json:"trusted_base"`
	Assumes   []string   `json:"assumptions"`
	Exclude   []string   `json:"exclude"` // obligation name regexps never claimed (reported as stretch)
}

type ObResult struct {
	Name     string  `json:"name"`
	Kind     string  `json:"kind"`
	Claimed  bool    `json:"claimed"`
	Verdict  string  `json:"verdict"`
	Solver   string  `json:"solver,omitempty"`
	TimeS    float64 `json:"time_s"`
	Records  int     `json:"records"`
	DagSize  int     `json:"dag_size,omitempty"`
	Pos      string  `json:"pos,omitempty"`
	smt      string
	output   string
	query    *Query
	rawSMT   bool
}

func kindClaimed(kind string, claim []string) bool {
	base := kind
	if strings.HasPrefix(kind, "loop.") {
		base = "loop"
	}
	for _, c := range claim {
		if c == base || c == kind {
			return true
		}
	}
	return false
}

func groupObligations(obs []*ObRecord) (map[string][]*ObRecord, []string) {
	g := map[string][]*ObRecord{}
	var order []string
	for _, o := range obs {
		if _, ok := g[o.Name]; !ok {
			order = append(order, o.Name)
		}
		g[o.Name] = append(g[o.Name], o)
	}
	return g, order
}

func main() {
	if len(os.Args) < 2 {
		fmt.Fprintln(os.Stderr, "usage: icsvc check|dump|list ...")
		os.Exit(2)
	}
	switch os.Args[1] {
	case "check":
		os.Exit(cmdCheck(os.Args[2:]))
	case "dump":
		os.Exit(cmdDump(os.Args[2:]))
	case "replay":
		os.Exit(cmdReplay(os.Args[2:]))
	default:
		fmt.Fprintln(os.Stderr, "unknown command")
		os.Exit(2)
	}
}

func cmdDump(args []string) int {
	fs := flag.NewFlagSet("dump", flag.ExitOnError)
	repo := fs.String("repo", "/repo", "")
	fs.Parse(args)
	ld, err := loadRepo(*repo)
	if err != nil {
		fmt.Fprintln(os.Stderr, err)
		return 2
	}
	for _, k := range fs.Args() {
		fn := ld.findFunc(k)
		if fn == nil {
			fmt.Println("not found:", k)
			continue
		}
		if os.Getenv("ICSVC_JOINS") != "" {
			ji := computeJoins(fn)
			for _, b := range fn.Blocks {
				j := ji.ipdom[b]
				if j != nil {
					fmt.Printf("b%d -> ipdom b%d (succs %d)\n", b.Index, j.Index, len(b.Succs))
				} else {
					fmt.Printf("b%d -> none (succs %d)\n", b.Index, len(b.Succs))
				}
			}
			continue
		}
		fn.WriteTo(os.Stdout)
		for _, af := range fn.AnonFuncs {
			af.WriteTo(os.Stdout)
		}
	}
	return 0
}

type checkOpts struct {
	repo, verif, prop, tier, only, out string
	timeout                      int
	keep                         bool
	workers                      int
	trace                        bool
}

func cmdCheck(args []string) int {
	fs := flag.NewFlagSet("check", flag.ExitOnError)
	var o checkOpts
	fs.StringVar(&o.repo, "repo", "/repo", "repository under test")
	fs.StringVar(&o.verif, "verif", "/verif", "verification directory")
	fs.StringVar(&o.out, "out", "", "directory for evidence/, replays/ and out/ (default: the verification directory)")
	fs.StringVar(&o.prop, "prop", "", "property id")
	fs.StringVar(&o.tier, "tier", "quick", "quick|thorough")
	fs.StringVar(&o.only, "only", "", "regexp: only obligations matching")
	fs.IntVar(&o.timeout, "timeout", 0, "solver timeout (s)")
	fs.BoolVar(&o.keep, "keep", false, "keep SMT files")
	fs.IntVar(&o.workers, "workers", 6, "parallel queries")
	fs.BoolVar(&o.trace, "trace", false, "engine panics are fatal")
	fs.Parse(args)
	if o.out == "" {
		o.out = o.verif
	}
	if o.timeout == 0 {
		o.timeout = 90
		if o.tier == "thorough" {
			o.timeout = 240
		}
	}
	// under heavy machine load solver wall time is not solver effort: stretch the budget (up to 4x) so that a
	// loaded machine does not turn a 10 s proof into a timeout
	if b, err := os.ReadFile("/proc/loadavg"); err == nil {
		var l1 float64
		fmt.Sscanf(string(b), "%f", &l1)
		if n := float64(runtime.NumCPU()); n > 0 && l1 > n {
			f := l1 / n
			if f > 4 {
				f = 4
			}
			o.timeout = int(float64(o.timeout) * f)
		}
	}
	return runCheck(&o)
}

func runCheck(o *checkOpts) int {
	t0 := time.Now()
	specFile := filepath.Join(o.verif, "specs", "props", o.prop+".json")
	b, err := os.ReadFile(specFile)
	if err != nil {
		fmt.Fprintln(os.Stderr, "engine error:", err)
		return 2
	}
	var spec PropSpec
	if err := json.Unmarshal(b, &spec); err != nil {
		fmt.Fprintln(os.Stderr, "engine error: bad spec:", err)
		return 2
	}
	ld, err := loadRepo(o.repo)
	if err != nil {
		fmt.Fprintln(os.Stderr, "engine error:", err)
		return 2
	}
	if err := ld.loadContracts(filepath.Join(o.verif, "contracts")); err != nil {
		fmt.Fprintln(os.Stderr, "engine error: contracts:", err)
		return 2
	}
	tLoad := time.Since(t0).Seconds()
	var results []*ObResult
	var engineErrs []string
	var allWarnings = map[string]int{}
	var funcsUnder []string
	var onlyRe *regexp.Regexp
	if o.only != "" {
		onlyRe = regexp.MustCompile(o.only)
	}
	var excl []*regexp.Regexp
	for _, e := range spec.Exclude {
		excl = append(excl, regexp.MustCompile(e))
	}
	var queries []*ObResult
	for _, pf := range spec.Functions {
		fn := ld.findFunc(pf.Func)
		ct := ld.cs.Funcs[pf.Func]
		if fn == nil || ct == nil {
			// contract-unbound: every obligation of the function is reported
			engineErrs = append(engineErrs, fmt.Sprintf("contract-unbound: function %s (found=%v, contract=%v)", pf.Func, fn != nil, ct != nil))
			queries = append(queries, &ObResult{Name: pf.Func + "#contract-unbound", Kind: "ensures", Claimed: true, Verdict: "unbound"})
			continue
		}
		funcsUnder = append(funcsUnder, pf.Func)
		ex := newExec(ld)
		ex.trace = o.trace
		if os.Getenv("ICSVC_DEBUG_FORKS") != "" {
			ex.forkCount = map[string]int{}
		}
		rep := ex.verifyFunction(fn, ct, pf.Func)
		for w, n := range rep.Warnings {
			allWarnings[w] += n
		}
		for w, n := range ex.assumed {
			allWarnings[w] += n
		}
		for _, u := range rep.Unsupported {
			engineErrs = append(engineErrs, pf.Func+": "+u)
		}
		if len(rep.Unsupported) > 0 {
			// the function under contract could not be analysed completely on this tree: whatever was proved for it
			// before is no longer established, which is reported as an undischarged obligation of the property
			// (with the engine's reasons), not silently as a tool problem
			queries = append(queries, &ObResult{Name: pf.Func + "#analysable", Kind: "ensures", Claimed: true, Verdict: "engine-error", output: strings.Join(rep.Unsupported, "\n"), Pos: ""})
		}
		var fnOnly *regexp.Regexp
		if pf.Only != "" {
			fnOnly = regexp.MustCompile(pf.Only)
		}
		groups, order := groupObligations(rep.Obligations)
		for _, name := range order {
			recs := groups[name]
			if onlyRe != nil && !onlyRe.MatchString(name) {
				continue
			}
			if fnOnly != nil && !fnOnly.MatchString(name) {
				continue
			}
			var goals []*Term
			for _, r := range recs {
				goals = append(goals, Implies(r.PC, r.Cond))
			}
			goal := And(goals...)
			claimed := kindClaimed(recs[0].Kind, pf.Claim)
			for _, re := range excl {
				if re.MatchString(name) {
					claimed = false
				}
			}
			r := &ObResult{Name: name, Kind: recs[0].Kind, Claimed: claimed, Records: len(recs), Pos: recs[0].Pos}
			if goal == True {
				r.Verdict = "unsat"
				r.Solver = "simplifier"
			} else {
				r.query = &Query{Name: name, Assumes: ex.axioms, Goal: goal}
				r.DagSize = dagSize(goal)
			}
			queries = append(queries, r)
		}
		coverPC := map[string]*Term{}
		var coverOrder []string
		for _, c := range rep.Covers {
			if _, ok := coverPC[c.Name]; !ok {
				coverOrder = append(coverOrder, c.Name)
				coverPC[c.Name] = False
			}
			coverPC[c.Name] = Or(coverPC[c.Name], c.PC)
		}
		for _, name := range coverOrder {
			if onlyRe != nil && !onlyRe.MatchString(name) {
				continue
			}
			pc := coverPC[name]
			if pc == False {
				engineErrs = append(engineErrs, "vacuity: "+name+": every path reaching this point has a syntactically contradictory path condition")
				continue
			}
			r := &ObResult{Name: name, Kind: "cover", Claimed: true, Records: 1}
			r.query = &Query{Name: name, Assumes: append(append([]*Term{}, ex.axioms...), dropQuantifiedOr(pc)), Cover: true}
			queries = append(queries, r)
			// consistency: the full path condition (with quantified definitional facts and all axioms) must not be refutable
			r2 := &ObResult{Name: strings.Replace(name, "#cover:", "#consistency:", 1), Kind: "consistency", Claimed: true, Records: 1}
			r2.query = &Query{Name: r2.Name, Assumes: append(append([]*Term{}, ex.axioms...), pc), Cover: true}
			queries = append(queries, r2)
		}
	}
	// byte-level key lemmas (C13 part A)
	if spec.KeyLemmas {
		ex := newExec(ld)
		ex.topFn = nil
		ex.fnPrefix = "keylemmas"
		ex.warnings = map[string]int{}
		rs, problems := ld.keyLemmaQueries(ex)
		for _, pr := range problems {
			engineErrs = append(engineErrs, "key builder not analysable: "+pr)
		}
		for _, r := range rs {
			if onlyRe != nil && !onlyRe.MatchString(r.Name) {
				continue
			}
			queries = append(queries, r)
		}
		funcsUnder = append(funcsUnder, "provider/types/keys.go (all []byte key builders)", "consumer/types/keys.go (all []byte key builders)")
	}
	// source sweeps
	for _, sw := range spec.Sweeps {
		for _, sr := range ld.runSweep(sw, o.verif) {
			if onlyRe != nil && !onlyRe.MatchString(sr.Name) {
				continue
			}
			r := &ObResult{Name: sr.Name, Kind: "sweep", Claimed: true, Records: len(sr.Found)}
			if sr.OK {
				r.Verdict, r.Solver = "unsat", "generator"
			} else {
				r.Verdict, r.Solver = "sat", "generator"
			}
			r.output = sr.Detail
			queries = append(queries, r)
		}
	}
	tGen := time.Since(t0).Seconds() - tLoad
	// solve
	smtDir := filepath.Join(os.TempDir(), fmt.Sprintf("icsvc-%s-%d", o.prop, os.Getpid()))
	if o.keep {
		smtDir = filepath.Join(o.out, "out", "smt", o.prop)
	}
	os.MkdirAll(smtDir, 0o755)
	if !o.keep {
		defer os.RemoveAll(smtDir)
	}
	var wg sync.WaitGroup
	sem := make(chan struct{}, o.workers)
	// SMT text must be generated sequentially (shared tables)
	for _, r := range queries {
		if r.query != nil {
			func() {
				defer func() {
					if rec := recover(); rec != nil {
						r.Verdict = "error"
						r.output = fmt.Sprintf("smt generation: %v", rec)
						r.query = nil
						if o.trace {
							panic(rec)
						}
					}
				}()
				r.smt = r.query.SMT(true)
			}()
		}
	}
	knownPre := loadKnownFindings(filepath.Join(o.verif, "known_findings.txt"))
	mode := "race"
	if o.tier == "thorough" {
		mode = "race"
	}
	for _, r := range queries {
		if r.query == nil && !r.rawSMT {
			continue
		}
		if o.tier != "thorough" && !r.Claimed && r.Kind != "cover" && r.Kind != "consistency" {
			// stretch obligations (never claimed) are only attempted in the thorough tier
			r.Verdict = "skipped"
			continue
		}
		wg.Add(1)
		go func(r *ObResult) {
			defer wg.Done()
			sem <- struct{}{}
			defer func() { <-sem }()
			to := o.timeout
			if (r.Kind == "cover" || r.Kind == "consistency") && to > 10 {
				// vacuity guards only have to be "not refuted": a short budget is enough to catch a contradiction
				to = 10
			}
			if knownPre.match(spec.ID, r.Name) != nil && to > 20 {
				// an obligation listed as a known finding is expected to fail: do not spend the full budget on it
				to = 20
			}
			if !r.Claimed && to > 90 {
				// stretch obligations are informative only: bound what the thorough tier spends on each
				to = 90
			}
			sr := Solve(r.smt, smtDir, r.Name, to, mode)
			r.Verdict = sr.Verdict
			r.Solver = sr.Solver
			r.TimeS = sr.TimeS
			r.output = sr.Output
		}(r)
	}
	wg.Wait()
	results = queries
	return report(o, &spec, ld, results, engineErrs, allWarnings, funcsUnder, t0, tLoad, tGen)
}

func report(o *checkOpts, spec *PropSpec, ld *Loaded, results []*ObResult, engineErrs []string, warnings map[string]int, funcs []string, t0 time.Time, tLoad, tGen float64) int {
	known := loadKnownFindings(filepath.Join(o.verif, "known_findings.txt"))
	claimed, discharged, violations := 0, 0, 0
	stretchN, stretchOK := 0, 0
	byBackend := map[string]int{}
	solverTime := 0.0
	var samples []map[string]interface{}
	var slow []map[string]interface{}
	var viol []string
	coversOK := 0
	exit := 0
	knownHits := []string{}
	for _, r := range results {
		solverTime += r.TimeS
		if r.Kind == "consistency" {
			if r.Verdict == "unsat" {
				engineErrs = append(engineErrs, "inconsistency: "+r.Name+" — the assumptions of this function are contradictory (every proof for it would be vacuous)")
			}
			continue
		}
		if r.Kind == "cover" {
			// must be satisfiable
			if r.Verdict == "sat" {
				coversOK++
			} else if r.Verdict == "unsat" {
				engineErrs = append(engineErrs, "vacuity: "+r.Name+" is unsatisfiable (contradictory precondition or no returning path)")
			}
			continue
		}
		if !r.Claimed {
			if r.Verdict == "skipped" {
				continue
			}
			stretchN++
			if r.Verdict == "unsat" {
				stretchOK++
			}
			continue
		}
		claimed++
		if r.Verdict == "unsat" {
			discharged++
			byBackend[r.Solver]++
			if len(samples) < 6 && r.Solver != "simplifier" {
				samples = append(samples, map[string]interface{}{"obligation": r.Name, "verdict": r.Verdict, "solver": r.Solver, "time_s": r.TimeS, "dag_nodes": r.DagSize, "paths": r.Records})
			}
			if r.TimeS > 2 {
				slow = append(slow, map[string]interface{}{"obligation": r.Name, "time_s": r.TimeS})
			}
			continue
		}
		// not discharged: known finding?
		if kf := known.match(spec.ID, r.Name); kf != nil {
			fmt.Printf("KNOWN-FINDING: %s\n", kf.Text)
			// listed in known_findings.txt: neither discharged nor a new violation; it is not part of the proof claim
			// (coverage.obligations counts the obligations expected to be discharged) and is reported separately
			knownHits = append(knownHits, r.Name)
			claimed--
			continue
		}
		violations++
		rp := writeReplay(o, spec.ID, r)
		suffix := " no-failing-input-found"
		line := fmt.Sprintf("VIOLATION property=%s replay=%s%s", spec.ID, rp, suffix)
		viol = append(viol, line)
		fmt.Println(line)
		fmt.Printf("  obligation %s: %s (%s) at %s\n", r.Name, r.Verdict, r.Solver, r.Pos)
		exit = 1
	}
	sort.Strings(engineErrs)
	for _, e := range engineErrs {
		fmt.Println("ENGINE-ERROR:", e)
	}
	wall := time.Since(t0).Seconds()
	var warnList []string
	for w, n := range warnings {
		warnList = append(warnList, fmt.Sprintf("%s (x%d)", w, n))
	}
	sort.Strings(warnList)
	if len(samples) == 0 {
		for _, r := range results {
			if r.Claimed && len(samples) < 3 {
				samples = append(samples, map[string]interface{}{"obligation": r.Name, "verdict": r.Verdict, "solver": r.Solver})
			}
		}
	}
	assumptions := append([]string{}, spec.Assumes...)
	assumptions = append(assumptions, warnList...)
	// callee contracts used at call sites: verified by which property check, or assumed
	verifiedBy := claimedFunctions(o.verif)
	var callee []map[string]interface{}
	var ucNames []string
	for n := range usedContracts {
		ucNames = append(ucNames, n)
	}
	sort.Strings(ucNames)
	for _, n := range ucNames {
		vb := verifiedBy[n]
		callee = append(callee, map[string]interface{}{"func": n, "kind": usedContracts[n], "verified_by": vb})
		if len(vb) == 0 {
			assumptions = append(assumptions, fmt.Sprintf("contract of %s (%s) is used at call sites but its body is not verified against it by any check: assumed", n, usedContracts[n]))
		}
	}
	trusted := append([]string{}, defaultTrustedBase...)
	trusted = append(trusted, spec.Trusted...)
	ev := map[string]interface{}{
		"property_id": spec.ID,
		"tier":        o.tier,
		"seed":        seedFromEnv(),
		"level":       "proof",
		"coverage": map[string]interface{}{
			"obligations":              claimed,
			"discharged":               discharged,
			"checker_cmd":              fmt.Sprintf("./check %s %s", spec.ID, o.tier),
			"trusted_base":             trusted,
			"callee_contracts_used":    callee,
			"functions_under_contract": funcs,
			"by_backend":               byBackend,
			"solver_time_s":            solverTime,
			"load_s":                   tLoad,
			"vcgen_s":                  tGen,
			"slowest":                  slow,
			"covers_ok":                coversOK,
			"stretch":                  map[string]int{"attempted": stretchN, "discharged": stretchOK},
			"samples":                  samples,
			"contract_files":           ld.contractFiles,
			"engine_errors":            engineErrs,
			"known_findings_hit":       knownHits,
			"unclaimed":                unclaimedList(results),
			"claimed_obligations":      claimedList(results),
		},
		"assumptions": assumptions,
		"wall_s":      wall,
		"violations":  violations,
	}
	os.MkdirAll(filepath.Join(o.out, "evidence"), 0o755)
	eb, _ := json.MarshalIndent(ev, "", " ")
	os.WriteFile(filepath.Join(o.out, "evidence", spec.ID+".json"), eb, 0o644)
	fmt.Printf("%s: %d/%d claimed obligations discharged, %d stretch (%d ok), %d covers ok, %d engine errors, %.1fs (load %.1f, vcgen %.1f)\n",
		spec.ID, discharged, claimed, stretchN, stretchOK, coversOK, len(engineErrs), wall, tLoad, tGen)
	if exit == 0 && len(engineErrs) > 0 {
		return 2
	}
	if exit == 0 && claimed == 0 {
		fmt.Println("ENGINE-ERROR: no claimed obligations generated")
		return 2
	}
	return exit
}

// dropQuantified removes quantified conjuncts (definitional facts about fresh symbols) so that a cover query
// can be answered `sat` by the solvers; covers therefore check the quantifier-free part of the path condition.
func dropQuantified(t *Term) *Term {
	if t.Op != "and" {
		if containsQuant(t) {
			return True
		}
		return t
	}
	var keep []*Term
	for _, a := range t.Args {
		if !containsQuant(a) {
			keep = append(keep, a)
		}
	}
	return And(keep...)
}

func dropQuantifiedOr(t *Term) *Term {
	if t.Op == "or" {
		var ds []*Term
		for _, a := range t.Args {
			ds = append(ds, dropQuantified(a))
		}
		return Or(ds...)
	}
	return dropQuantified(t)
}

func containsQuant(t *Term) bool {
	seen := map[int]bool{}
	var rec func(t *Term) bool
	rec = func(t *Term) bool {
		if seen[t.id] {
			return false
		}
		seen[t.id] = true
		if t.Op == "forall" || t.Op == "exists" {
			return true
		}
		for _, a := range t.Args {
			if rec(a) {
				return true
			}
		}
		return false
	}
	return rec(t)
}

func unclaimedList(results []*ObResult) []map[string]string {
	var out []map[string]string
	for _, r := range results {
		if !r.Claimed && r.Kind != "cover" && r.Kind != "consistency" {
			out = append(out, map[string]string{"obligation": r.Name, "kind": r.Kind, "verdict": r.Verdict})
		}
	}
	return out
}

func seedFromEnv() int {
	var s int
	fmt.Sscanf(os.Getenv("VERIF_SEED"), "%d", &s)
	return s
}

func writeReplay(o *checkOpts, prop string, r *ObResult) string {
	dir := filepath.Join(o.out, "replays", prop)
	os.MkdirAll(dir, 0o755)
	fn := filepath.Join(dir, sanitizeFile(r.Name)+".json")
	out := r.output
	if len(out) > 20000 {
		out = out[:20000]
	}
	m := map[string]interface{}{"property": prop, "obligation": r.Name, "verdict": r.Verdict, "solver": r.Solver, "solver_output": out, "position": r.Pos, "kind": r.Kind}
	if r.smt != "" {
		qf := filepath.Join(dir, sanitizeFile(r.Name)+".smt2")
		os.WriteFile(qf, []byte(r.smt), 0o644)
		m["query_file"] = qf
	}
	b, _ := json.MarshalIndent(m, "", " ")
	os.WriteFile(fn, b, 0o644)
	return fn
}

// ---------------------------------------------------------------- known findings

type KnownFinding struct {
	Kind       string // known | fixed
	Property   string
	Obligation string
	Text       string
}

type KnownSet struct{ list []*KnownFinding }

func loadKnownFindings(path string) *KnownSet {
	ks := &KnownSet{}
	b, err := os.ReadFile(path)
	if err != nil {
		return ks
	}
	for _, line := range strings.Split(string(b), "\n") {
		line = strings.TrimSpace(line)
		if line == "" || strings.HasPrefix(line, "#") {
			continue
		}
		kf := &KnownFinding{}
		if strings.HasPrefix(line, "known:") {
			kf.Kind = "known"
			line = strings.TrimSpace(strings.TrimPrefix(line, "known:"))
		} else if strings.HasPrefix(line, "fixed:") {
			kf.Kind = "fixed"
			line = strings.TrimSpace(strings.TrimPrefix(line, "fixed:"))
		} else {
			continue
		}
		for _, f := range strings.Fields(line) {
			if strings.HasPrefix(f, "property=") {
				kf.Property = strings.TrimPrefix(f, "property=")
			} else if strings.HasPrefix(f, "obligation=") {
				kf.Obligation = strings.TrimPrefix(f, "obligation=")
			}
		}
		kf.Text = line
		ks.list = append(ks.list, kf)
	}
	return ks
}

func (ks *KnownSet) match(prop, ob string) *KnownFinding {
	for _, k := range ks.list {
		if k.Kind == "known" && k.Property == prop && k.Obligation == ob {
			return k
		}
	}
	return nil
}

// cmdReplay re-generates and re-discharges the single obligation named in a replay file against /repo's current
// tree (exit 1 + VIOLATION line if it still fails, exit 0 if it is discharged now), after printing what the
// verifier reported when the file was written. Evidence files are not touched.
func cmdReplay(args []string) int {
	if len(args) < 1 {
		fmt.Fprintln(os.Stderr, "usage: icsvc replay <replay.json>")
		return 2
	}
	b, err := os.ReadFile(args[0])
	if err != nil {
		fmt.Fprintln(os.Stderr, "engine error:", err)
		return 2
	}
	var m struct {
		Property   string `json:"property"`
		Obligation string `json:"obligation"`
		Verdict    string `json:"verdict"`
		Solver     string `json:"solver"`
		Output     string `json:"solver_output"`
		Position   string `json:"position"`
	}
	if err := json.Unmarshal(b, &m); err != nil || m.Property == "" || m.Obligation == "" {
		fmt.Fprintln(os.Stderr, "engine error: not a replay file")
		return 2
	}
	out := m.Output
	if len(out) > 1500 {
		out = out[:1500] + " ..."
	}
	fmt.Printf("replay: property=%s obligation=%s\n  recorded verdict: %s (%s) at %s\n  recorded solver output: %s\n", m.Property, m.Obligation, m.Verdict, m.Solver, m.Position, strings.TrimSpace(out))
	tmp := "/verif/out/replay"
	os.MkdirAll(tmp, 0o755)
	o := &checkOpts{repo: "/repo", verif: "/verif", out: tmp, prop: m.Property, tier: "thorough", only: "^" + regexp.QuoteMeta(m.Obligation) + "$", timeout: 120, workers: 6}
	if v := os.Getenv("ICSVC_REPO"); v != "" {
		o.repo = v
	}
	return runCheck(o)
}

// defaultTrustedBase: what every proof by this engine rests on (DESIGN.md section 3).
var defaultTrustedBase = []string{
	"T1 icsvc itself: SSA symbolic executor, loop cutting, join merging, contract evaluator, SMT printer (self-tested by the seeded-change corpus in /verif/seeded and the vacuity guards #cover/#consistency)",
	"T2 go/packages + go/ssa (golang.org/x/tools v0.29.0) as the front end: the verified text is the SSA of /repo's current sources, build tag verif",
	"T3 SMT solvers z3 4.8.12, z3 5.1.0, cvc5 1.0.3: an `unsat` answer of any one of them is accepted",
	"T4 KV-store semantics: a store is a total map Bytes->Bytes (nil = absent); CacheContext copies the store, the dependency state and the effect log, its write function copies them back; prefix iterators enumerate exactly the present keys with the prefix, in ascending byte order",
	"T5 codecs: protobuf Marshal/Unmarshal, sdk.Uint64ToBigEndian, time MarshalBinary and the key builders' encodings are injective with the stated inverses; Unmarshal of nil yields the zero message; Marshal never fails",
	"T6 dependency keepers (staking, slashing, bank, IBC client/connection/channel, distribution, gov authority) are deterministic functions of their own state X and their arguments; commands append to the effect log E; nothing is assumed about their results except where an assumption is listed",
	"T7 external pure functions (address conversions, hashing, fmt, strconv, ParseChainID, math.LegacyDec arithmetic beyond +,-,*,comparison) are uninterpreted deterministic functions",
	"T8 integers: Go fixed-width integers are modelled as mathematical integers with range side conditions where the contract states them (overflow obligations are generated but only claimed where listed); math.Int / LegacyDec / time are unbounded integers",
	"T9 no concurrency: the state machine is single-threaded (ABCI); goroutines are outside the model",
	"T10 panics: explicit panics and run-time panics (index, nil map write, iterator misuse) end the path; they are proof obligations only under the nopanic claims listed in the property's spec file",
}

// claimedFunctions: for every function, the properties whose spec file verifies its body against its contract.
func claimedFunctions(verif string) map[string][]string {
	out := map[string][]string{}
	files, _ := filepath.Glob(filepath.Join(verif, "specs", "props", "C*.json"))
	sort.Strings(files)
	for _, f := range files {
		b, err := os.ReadFile(f)
		if err != nil {
			continue
		}
		var sp PropSpec
		if json.Unmarshal(b, &sp) != nil {
			continue
		}
		for _, pf := range sp.Functions {
			tag := sp.ID
			if pf.Only != "" {
				tag += " (clauses matching " + pf.Only + ")"
			}
			out[pf.Func] = append(out[pf.Func], tag)
		}
	}
	return out
}

// claimedList: every claimed obligation of this run with its verdict, the solver that decided it and the time.
func claimedList(results []*ObResult) []map[string]interface{} {
	var out []map[string]interface{}
	for _, r := range results {
		if !r.Claimed || r.Kind == "cover" || r.Kind == "consistency" {
			continue
		}
		out = append(out, map[string]interface{}{"obligation": r.Name, "kind": r.Kind, "verdict": r.Verdict, "solver": r.Solver, "time_s": r.TimeS, "paths": r.Records})
	}
	return out
}
