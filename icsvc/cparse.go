package main

// Contract language: lexer + Pratt parser. Syntax is Go-expression-like with
//   forall x T, y T :: e     exists x T :: e     a ==> b     a <==> b     c ? a : b     old(e)
// Contracts live in comment-only files (//@ lines) in the repository behind the build tag `verif`.

import (
	"fmt"
	"strings"
	"unicode"
)

type Expr struct {
	Kind string // int str ident bool nil sel index call unary binary quant cond slice
	Val  string
	Args []*Expr
	Vars []Binder // quant
	Pos  int
	Src  string
}

type Binder struct {
	Name string
	Type string
}

type tok struct {
	kind string // int str ident op eof
	val  string
	pos  int
}

func lex(s string) ([]tok, error) {
	var out []tok
	i := 0
	for i < len(s) {
		c := s[i]
		switch {
		case c == ' ' || c == '\t' || c == '\n':
			i++
		case unicode.IsDigit(rune(c)):
			j := i
			for j < len(s) && (unicode.IsDigit(rune(s[j])) || s[j] == '_') {
				j++
			}
			out = append(out, tok{"int", strings.ReplaceAll(s[i:j], "_", ""), i})
			i = j
		case unicode.IsLetter(rune(c)) || c == '_' || c == '$' || c == '#':
			j := i + 1
			for j < len(s) && (unicode.IsLetter(rune(s[j])) || unicode.IsDigit(rune(s[j])) || s[j] == '_' || s[j] == '$' || s[j] == '#' || s[j] == '\'') {
				j++
			}
			out = append(out, tok{"ident", s[i:j], i})
			i = j
		case c == '"':
			j := i + 1
			var sb strings.Builder
			for j < len(s) && s[j] != '"' {
				if s[j] == '\\' && j+1 < len(s) {
					j++
					switch s[j] {
					case 'n':
						sb.WriteByte('\n')
					case 'x':
						var b byte
						fmt.Sscanf(s[j+1:j+3], "%02x", &b)
						sb.WriteByte(b)
						j += 2
					default:
						sb.WriteByte(s[j])
					}
				} else {
					sb.WriteByte(s[j])
				}
				j++
			}
			if j >= len(s) {
				return nil, fmt.Errorf("unterminated string at %d", i)
			}
			out = append(out, tok{"str", sb.String(), i})
			i = j + 1
		default:
			ops := []string{"<==>", "==>", "::", ":=", "==", "!=", "<=", ">=", "&&", "||", "+", "-", "*", "/", "%", "<", ">", "!", "(", ")", "[", "]", ",", ".", "?", ":", "{", "}"}
			matched := false
			for _, op := range ops {
				if strings.HasPrefix(s[i:], op) {
					out = append(out, tok{"op", op, i})
					i += len(op)
					matched = true
					break
				}
			}
			if !matched {
				return nil, fmt.Errorf("unexpected character %q at %d in %q", c, i, s)
			}
		}
	}
	out = append(out, tok{"eof", "", len(s)})
	return out, nil
}

type parser struct {
	toks []tok
	p    int
	src  string
}

func (p *parser) peek() tok { return p.toks[p.p] }
func (p *parser) next() tok { t := p.toks[p.p]; p.p++; return t }
func (p *parser) accept(v string) bool {
	if t := p.peek(); (t.kind == "op" || t.kind == "ident") && t.val == v {
		p.p++
		return true
	}
	return false
}
func (p *parser) expect(v string) error {
	if !p.accept(v) {
		return fmt.Errorf("expected %q at %d (got %q) in %q", v, p.peek().pos, p.peek().val, p.src)
	}
	return nil
}

func ParseExpr(s string) (*Expr, error) {
	toks, err := lex(s)
	if err != nil {
		return nil, err
	}
	p := &parser{toks: toks, src: s}
	e, err := p.expr(0)
	if err != nil {
		return nil, err
	}
	if p.peek().kind != "eof" {
		return nil, fmt.Errorf("trailing input at %d (%q) in %q", p.peek().pos, p.peek().val, s)
	}
	return e, nil
}

var binPrec = map[string]int{
	"<==>": 1, "==>": 2, "||": 3, "&&": 4,
	"==": 5, "!=": 5, "<": 5, "<=": 5, ">": 5, ">=": 5,
	"+": 6, "-": 6, "*": 7, "/": 7, "%": 7,
}

func (p *parser) expr(minPrec int) (*Expr, error) {
	lhs, err := p.unary()
	if err != nil {
		return nil, err
	}
	for {
		t := p.peek()
		if t.kind != "op" {
			break
		}
		if t.val == "?" && minPrec <= 0 {
			p.next()
			a, err := p.expr(0)
			if err != nil {
				return nil, err
			}
			if err := p.expect(":"); err != nil {
				return nil, err
			}
			b, err := p.expr(0)
			if err != nil {
				return nil, err
			}
			lhs = &Expr{Kind: "cond", Args: []*Expr{lhs, a, b}, Pos: t.pos}
			continue
		}
		prec, ok := binPrec[t.val]
		if !ok || prec < minPrec {
			break
		}
		p.next()
		var rhs *Expr
		if t.val == "==>" || t.val == "<==>" {
			rhs, err = p.expr(prec) // right assoc
		} else {
			rhs, err = p.expr(prec + 1)
		}
		if err != nil {
			return nil, err
		}
		lhs = &Expr{Kind: "binary", Val: t.val, Args: []*Expr{lhs, rhs}, Pos: t.pos}
	}
	return lhs, nil
}

func (p *parser) unary() (*Expr, error) {
	t := p.peek()
	if t.kind == "op" && (t.val == "!" || t.val == "-" || t.val == "*") {
		p.next()
		e, err := p.unary()
		if err != nil {
			return nil, err
		}
		return &Expr{Kind: "unary", Val: t.val, Args: []*Expr{e}, Pos: t.pos}, nil
	}
	if t.kind == "ident" && (t.val == "forall" || t.val == "exists") {
		p.next()
		var bs []Binder
		for {
			n := p.next()
			if n.kind != "ident" {
				return nil, fmt.Errorf("binder name expected at %d in %q", n.pos, p.src)
			}
			// type: sequence of tokens up to ',' or '::'
			var ty strings.Builder
			for {
				q := p.peek()
				if q.kind == "eof" || (q.kind == "op" && (q.val == "," || q.val == "::")) {
					break
				}
				ty.WriteString(q.val)
				p.next()
			}
			bs = append(bs, Binder{n.val, ty.String()})
			if p.accept(",") {
				continue
			}
			break
		}
		// binders without type take the type of the next typed binder
		for i := len(bs) - 1; i >= 0; i-- {
			if bs[i].Type == "" && i+1 < len(bs) {
				bs[i].Type = bs[i+1].Type
			}
		}
		if err := p.expect("::"); err != nil {
			return nil, err
		}
		body, err := p.expr(0)
		if err != nil {
			return nil, err
		}
		return &Expr{Kind: "quant", Val: t.val, Vars: bs, Args: []*Expr{body}, Pos: t.pos}, nil
	}
	return p.postfix()
}

func (p *parser) postfix() (*Expr, error) {
	e, err := p.primary()
	if err != nil {
		return nil, err
	}
	for {
		t := p.peek()
		if t.kind != "op" {
			break
		}
		switch t.val {
		case ".":
			p.next()
			n := p.next()
			if n.kind != "ident" && n.kind != "int" {
				return nil, fmt.Errorf("field name expected at %d in %q", n.pos, p.src)
			}
			e = &Expr{Kind: "sel", Val: n.val, Args: []*Expr{e}, Pos: t.pos}
		case "[":
			p.next()
			var lo, hi *Expr
			if p.peek().val != ":" {
				lo, err = p.expr(0)
				if err != nil {
					return nil, err
				}
			}
			if p.accept(":") {
				if p.peek().val != "]" {
					hi, err = p.expr(0)
					if err != nil {
						return nil, err
					}
				}
				if err := p.expect("]"); err != nil {
					return nil, err
				}
				e = &Expr{Kind: "slice", Args: []*Expr{e, lo, hi}, Pos: t.pos}
			} else {
				if err := p.expect("]"); err != nil {
					return nil, err
				}
				e = &Expr{Kind: "index", Args: []*Expr{e, lo}, Pos: t.pos}
			}
		case "(":
			p.next()
			var args []*Expr
			for p.peek().val != ")" {
				a, err := p.expr(0)
				if err != nil {
					return nil, err
				}
				args = append(args, a)
				if !p.accept(",") {
					break
				}
			}
			if err := p.expect(")"); err != nil {
				return nil, err
			}
			e = &Expr{Kind: "call", Args: append([]*Expr{e}, args...), Pos: t.pos}
		default:
			return e, nil
		}
	}
	return e, nil
}

func (p *parser) primary() (*Expr, error) {
	t := p.next()
	switch t.kind {
	case "int":
		return &Expr{Kind: "int", Val: t.val, Pos: t.pos}, nil
	case "str":
		return &Expr{Kind: "str", Val: t.val, Pos: t.pos}, nil
	case "ident":
		switch t.val {
		case "true", "false":
			return &Expr{Kind: "bool", Val: t.val, Pos: t.pos}, nil
		case "nil":
			return &Expr{Kind: "nil", Pos: t.pos}, nil
		}
		return &Expr{Kind: "ident", Val: t.val, Pos: t.pos}, nil
	case "op":
		if t.val == "(" {
			e, err := p.expr(0)
			if err != nil {
				return nil, err
			}
			if err := p.expect(")"); err != nil {
				return nil, err
			}
			return e, nil
		}
	}
	return nil, fmt.Errorf("unexpected token %q at %d in %q", t.val, t.pos, p.src)
}

func (e *Expr) String() string {
	if e == nil {
		return "_"
	}
	switch e.Kind {
	case "int", "ident", "bool":
		return e.Val
	case "str":
		return fmt.Sprintf("%q", e.Val)
	case "nil":
		return "nil"
	case "sel":
		return e.Args[0].String() + "." + e.Val
	case "index":
		return e.Args[0].String() + "[" + e.Args[1].String() + "]"
	case "slice":
		return e.Args[0].String() + "[" + e.Args[1].String() + ":" + e.Args[2].String() + "]"
	case "call":
		var as []string
		for _, a := range e.Args[1:] {
			as = append(as, a.String())
		}
		return e.Args[0].String() + "(" + strings.Join(as, ", ") + ")"
	case "unary":
		return e.Val + e.Args[0].String()
	case "binary":
		return "(" + e.Args[0].String() + " " + e.Val + " " + e.Args[1].String() + ")"
	case "cond":
		return "(" + e.Args[0].String() + " ? " + e.Args[1].String() + " : " + e.Args[2].String() + ")"
	case "quant":
		var bs []string
		for _, b := range e.Vars {
			bs = append(bs, b.Name+" "+b.Type)
		}
		return "(" + e.Val + " " + strings.Join(bs, ", ") + " :: " + e.Args[0].String() + ")"
	}
	return "?"
}

// ---------------------------------------------------------------- contract files

type Clause struct {
	Label   string
	Expr    *Expr
	Src     string
	Stretch bool // attempted and reported, never claimed
	Line    int
	File    string
}

type LetDef struct {
	Name string
	Expr *Expr
	Old  bool // evaluated in the entry state
}

type LoopSpec struct {
	Invariants []Clause
	Steps      []Clause // per-iteration postconditions, checked at every back edge; prev(e) = e at the start of the iteration
	Lets       []LetDef // evaluated at loop entry (ghost entry values)
}

type UseHint struct {
	Lemma string
	Args  []*Expr
	When  *Expr
	Where string // "" = before ensures; "loopN" = at the cut point of loop N (both init and preserve)
}

type Contract struct {
	Func     string
	File     string
	Line     int
	Requires []Clause
	Ensures  []Clause
	Lets     []LetDef
	Loops    map[int]*LoopSpec
	Uses     []UseHint
	Modifies []*Expr // key-set expressions; nil = unspecified
	ModifiesSet bool
	Pure     bool
	Trusted  bool   // contract assumed, body not verified against it (must be listed in evidence)
	PanicsIf []Clause
	Inline   bool // never use this contract at call sites (always inline)
	Modular  bool // always use this contract at call sites
	Precalls map[string][]Clause // assertions at direct call sites of the named callee ($Callee.<param> = the actual arguments)
	Writes   []string // declared store write set: family expressions (proved as ensures [writes])
	HasWrites bool
}

type SpecFunc struct {
	Name    string
	Params  []Binder
	Result  string
	Body    *Expr
	Decreases *Expr
	File    string
	Line    int
	uf      *UFDecl
	paramSorts []*Sort
	// bodies are instantiated on demand
}

type Lemma struct {
	Name     string
	Params   []Binder
	Requires []Clause
	Ensures  []Clause
	Induct   string // name of the int parameter to induct on ("" = direct)
	Uses     []UseHint
	File     string
	Line     int
	Axiom    bool // assumed (prelude), not proved: listed in evidence
}

type ContractSet struct {
	Funcs  map[string]*Contract
	Specs  map[string]*SpecFunc
	Lemmas map[string]*Lemma
	Consts map[string]*Expr
	Order  []string
}

func NewContractSet() *ContractSet {
	return &ContractSet{Funcs: map[string]*Contract{}, Specs: map[string]*SpecFunc{}, Lemmas: map[string]*Lemma{}, Consts: map[string]*Expr{}}
}

func parseLabel(s string) (string, string) {
	s = strings.TrimSpace(s)
	if strings.HasPrefix(s, "[") {
		if j := strings.Index(s, "]"); j > 0 {
			return s[1:j], strings.TrimSpace(s[j+1:])
		}
	}
	return "", s
}

func parseBinders(s string) ([]Binder, error) {
	s = strings.TrimSpace(s)
	if s == "" {
		return nil, nil
	}
	var bs []Binder
	for _, part := range strings.Split(s, ",") {
		f := strings.Fields(part)
		switch len(f) {
		case 1:
			bs = append(bs, Binder{f[0], ""})
		case 2:
			bs = append(bs, Binder{f[0], f[1]})
		default:
			return nil, fmt.Errorf("bad binder %q", part)
		}
	}
	for i := len(bs) - 1; i >= 0; i-- {
		if bs[i].Type == "" && i+1 < len(bs) {
			bs[i].Type = bs[i+1].Type
		}
	}
	return bs, nil
}

// ParseContractText parses the //@ lines of one file.
func (cs *ContractSet) ParseContractText(file, text string) error {
	// join continuation lines
	type ln struct {
		s    string
		line int
	}
	var lines []ln
	for i, raw := range strings.Split(text, "\n") {
		t := strings.TrimSpace(raw)
		if !strings.HasPrefix(t, "//@") {
			continue
		}
		body := t[3:]
		if strings.HasPrefix(body, "    ") || strings.HasPrefix(body, "\t") {
			if len(lines) > 0 {
				lines[len(lines)-1].s += " " + strings.TrimSpace(body)
				continue
			}
		}
		b := strings.TrimSpace(body)
		if b == "" || strings.HasPrefix(b, "--") {
			continue
		}
		lines = append(lines, ln{b, i + 1})
	}
	var cur *Contract
	var curLemma *Lemma
	for _, l := range lines {
		s := l.s
		kw := s
		rest := ""
		if j := strings.IndexAny(s, " \t"); j > 0 {
			kw, rest = s[:j], strings.TrimSpace(s[j+1:])
		}
		fail := func(err error) error { return fmt.Errorf("%s:%d: %v", file, l.line, err) }
		mkClause := func(rest string) (Clause, error) {
			label, src := parseLabel(rest)
			stretch := false
			if strings.HasPrefix(src, "(stretch)") {
				stretch = true
				src = strings.TrimSpace(strings.TrimPrefix(src, "(stretch)"))
			}
			e, err := ParseExpr(src)
			if err != nil {
				return Clause{}, err
			}
			return Clause{Label: label, Expr: e, Src: src, Stretch: stretch, Line: l.line, File: file}, nil
		}
		switch kw {
		case "func":
			name := strings.Fields(rest)[0]
			cur = &Contract{Func: name, File: file, Line: l.line, Loops: map[int]*LoopSpec{}}
			curLemma = nil
			for _, f := range strings.Fields(rest)[1:] {
				switch f {
				case "pure":
					cur.Pure = true
				case "trusted":
					cur.Trusted = true
				case "inline":
					cur.Inline = true
				case "modular":
					cur.Modular = true
				}
			}
			if _, dup := cs.Funcs[name]; dup {
				return fail(fmt.Errorf("duplicate contract for %s", name))
			}
			cs.Funcs[name] = cur
			cs.Order = append(cs.Order, name)
		case "requires", "ensures", "panics_if":
			c, err := mkClause(rest)
			if err != nil {
				return fail(err)
			}
			if curLemma != nil {
				if kw == "requires" {
					curLemma.Requires = append(curLemma.Requires, c)
				} else {
					curLemma.Ensures = append(curLemma.Ensures, c)
				}
				continue
			}
			if cur == nil {
				return fail(fmt.Errorf("%s outside func/lemma", kw))
			}
			switch kw {
			case "requires":
				cur.Requires = append(cur.Requires, c)
			case "ensures":
				cur.Ensures = append(cur.Ensures, c)
			default:
				cur.PanicsIf = append(cur.PanicsIf, c)
			}
		case "let":
			j := strings.Index(rest, ":=")
			if j < 0 || cur == nil {
				return fail(fmt.Errorf("bad let"))
			}
			e, err := ParseExpr(rest[j+2:])
			if err != nil {
				return fail(err)
			}
			cur.Lets = append(cur.Lets, LetDef{Name: strings.TrimSpace(rest[:j]), Expr: e})
		case "loop":
			f := strings.SplitN(rest, " ", 3)
			if len(f) < 3 || cur == nil {
				return fail(fmt.Errorf("bad loop line"))
			}
			var n int
			fmt.Sscanf(f[0], "%d", &n)
			ls := cur.Loops[n]
			if ls == nil {
				ls = &LoopSpec{}
				cur.Loops[n] = ls
			}
			switch f[1] {
			case "invariant":
				c, err := mkClause(f[2])
				if err != nil {
					return fail(err)
				}
				ls.Invariants = append(ls.Invariants, c)
			case "step":
				c, err := mkClause(f[2])
				if err != nil {
					return fail(err)
				}
				ls.Steps = append(ls.Steps, c)
			case "let":
				j := strings.Index(f[2], ":=")
				if j < 0 {
					return fail(fmt.Errorf("bad loop let"))
				}
				e, err := ParseExpr(f[2][j+2:])
				if err != nil {
					return fail(err)
				}
				ls.Lets = append(ls.Lets, LetDef{Name: strings.TrimSpace(f[2][:j]), Expr: e})
			case "use":
				u, err := parseUse(f[2])
				if err != nil {
					return fail(err)
				}
				u.Where = fmt.Sprintf("loop%d", n)
				cur.Uses = append(cur.Uses, u)
			default:
				return fail(fmt.Errorf("bad loop clause %q", f[1]))
			}
		case "use":
			u, err := parseUse(rest)
			if err != nil {
				return fail(err)
			}
			if curLemma != nil {
				curLemma.Uses = append(curLemma.Uses, u)
			} else if cur != nil {
				cur.Uses = append(cur.Uses, u)
			}
		case "precall":
			f := strings.SplitN(rest, " ", 2)
			if len(f) < 2 || cur == nil {
				return fail(fmt.Errorf("bad precall line"))
			}
			c, err := mkClause(f[1])
			if err != nil {
				return fail(err)
			}
			if cur.Precalls == nil {
				cur.Precalls = map[string][]Clause{}
			}
			cur.Precalls[f[0]] = append(cur.Precalls[f[0]], c)
		case "writes":
			if cur == nil {
				return fail(fmt.Errorf("writes outside func"))
			}
			cur.HasWrites = true
			var conj []string
			if rest != "nothing" && rest != "" {
				for _, part := range splitTop(rest, ',') {
					cur.Writes = append(cur.Writes, part)
					conj = append(conj, "fam(key) != ("+part+")")
				}
			}
			src := "forall key bytes :: S[key] == old(S[key])"
			if len(conj) > 0 {
				src = "forall key bytes :: " + strings.Join(conj, " && ") + " ==> S[key] == old(S[key])"
			}
			e, err := ParseExpr(src)
			if err != nil {
				return fail(err)
			}
			cur.Ensures = append(cur.Ensures, Clause{Label: "writes", Expr: e, Src: src, Line: l.line, File: file})
		case "modifies":
			if cur == nil {
				return fail(fmt.Errorf("modifies outside func"))
			}
			cur.ModifiesSet = true
			if rest != "nothing" && rest != "" {
				for _, part := range splitTop(rest, ',') {
					e, err := ParseExpr(part)
					if err != nil {
						return fail(err)
					}
					cur.Modifies = append(cur.Modifies, e)
				}
			}
		case "spec":
			// spec name(a T, b T) T = expr   [decreases e]
			op := strings.Index(rest, "(")
			cp := matchParen(rest, op)
			if op < 0 || cp < 0 {
				return fail(fmt.Errorf("bad spec"))
			}
			name := strings.TrimSpace(rest[:op])
			bs, err := parseBinders(rest[op+1 : cp])
			if err != nil {
				return fail(err)
			}
			after := strings.TrimSpace(rest[cp+1:])
			eq := strings.Index(after, "=")
			if eq < 0 {
				return fail(fmt.Errorf("spec without body"))
			}
			rt := strings.TrimSpace(after[:eq])
			bodySrc := strings.TrimSpace(after[eq+1:])
			e, err := ParseExpr(bodySrc)
			if err != nil {
				return fail(err)
			}
			cs.Specs[name] = &SpecFunc{Name: name, Params: bs, Result: rt, Body: e, File: file, Line: l.line}
			cur, curLemma = nil, nil
		case "lemma", "axiom":
			op := strings.Index(rest, "(")
			cp := matchParen(rest, op)
			if op < 0 || cp < 0 {
				return fail(fmt.Errorf("bad lemma"))
			}
			name := strings.TrimSpace(rest[:op])
			bs, err := parseBinders(rest[op+1 : cp])
			if err != nil {
				return fail(err)
			}
			lm := &Lemma{Name: name, Params: bs, File: file, Line: l.line, Axiom: kw == "axiom"}
			after := strings.TrimSpace(rest[cp+1:])
			if strings.HasPrefix(after, "induction") {
				lm.Induct = strings.TrimSpace(strings.TrimPrefix(after, "induction"))
			}
			cs.Lemmas[name] = lm
			curLemma = lm
			cur = nil
		case "const":
			j := strings.Index(rest, "=")
			if j < 0 {
				return fail(fmt.Errorf("bad const"))
			}
			e, err := ParseExpr(rest[j+1:])
			if err != nil {
				return fail(err)
			}
			cs.Consts[strings.TrimSpace(rest[:j])] = e
		default:
			return fail(fmt.Errorf("unknown contract keyword %q", kw))
		}
	}
	return nil
}

func parseUse(s string) (UseHint, error) {
	var u UseHint
	when := ""
	if j := strings.Index(s, " when "); j >= 0 {
		when = s[j+6:]
		s = s[:j]
	}
	e, err := ParseExpr(s)
	if err != nil {
		return u, err
	}
	if e.Kind != "call" || e.Args[0].Kind != "ident" {
		return u, fmt.Errorf("use: lemma application expected")
	}
	u.Lemma = e.Args[0].Val
	u.Args = e.Args[1:]
	if when != "" {
		w, err := ParseExpr(when)
		if err != nil {
			return u, err
		}
		u.When = w
	}
	return u, nil
}

func matchParen(s string, op int) int {
	if op < 0 {
		return -1
	}
	d := 0
	for i := op; i < len(s); i++ {
		switch s[i] {
		case '(':
			d++
		case ')':
			d--
			if d == 0 {
				return i
			}
		}
	}
	return -1
}

func splitTop(s string, sep byte) []string {
	var out []string
	d := 0
	last := 0
	for i := 0; i < len(s); i++ {
		switch s[i] {
		case '(', '[':
			d++
		case ')', ']':
			d--
		default:
			if s[i] == sep && d == 0 {
				out = append(out, strings.TrimSpace(s[last:i]))
				last = i + 1
			}
		}
	}
	out = append(out, strings.TrimSpace(s[last:]))
	return out
}
