package main

import (
	"fmt"
	"go/types"
	"math/big"
	"strings"

	"golang.org/x/tools/go/ssa"
)

var decOne = func() *Term {
	b := new(big.Int).Exp(big.NewInt(10), big.NewInt(18), nil)
	return BigLit(b)
}()

// truncDiv: big.Int.Quo semantics (truncate toward zero) — same as Go integer division.
func truncDiv(a, b *Term) *Term {
	if b.Op == "int" && b.Int.Sign() > 0 {
		coef, rest := constFactor(a)
		if rest != nil && coef.Sign() > 0 {
			if new(big.Int).Rem(coef, b.Int).Sign() == 0 {
				// (c*b*t)/b = c*t exactly
				return Mul(BigLit(new(big.Int).Quo(coef, b.Int)), rest)
			}
			if new(big.Int).Rem(b.Int, coef).Sign() == 0 {
				// (c*t)/(c*d) = t/d for truncating division, c > 0
				return Div(rest, BigLit(new(big.Int).Quo(b.Int, coef)))
			}
		}
	}
	return Div(a, b)
}

// constFactor splits a product into its constant coefficient and the product of the remaining factors
// (rest == nil when x is not a product with a constant factor).
func constFactor(x *Term) (*big.Int, *Term) {
	coef := big.NewInt(1)
	var rest *Term
	found := false
	var walk func(t *Term)
	walk = func(t *Term) {
		if t.Op == "*" {
			for _, a := range t.Args {
				walk(a)
			}
			return
		}
		if t.Op == "int" {
			coef.Mul(coef, t.Int)
			found = true
			return
		}
		if rest == nil {
			rest = t
		} else {
			rest = Mul(rest, t)
		}
	}
	walk(x)
	if !found || rest == nil {
		return big.NewInt(1), nil
	}
	return coef, rest
}

// bankers: round-half-even of x / p for p > 0 (LegacyDec chopPrecisionAndRound).
func bankers(x, p *Term) *Term {
	pos := func(x *Term) *Term {
		q := EDiv(x, p)
		r := EMod(x, p)
		two := IntLit(2)
		return Ite(Lt(Mul(two, r), p), q,
			Ite(Gt(Mul(two, r), p), Add(q, IntLit(1)),
				Ite(Eq(EMod(q, two), IntLit(0)), q, Add(q, IntLit(1)))))
	}
	if p.Op == "int" && p.Int.Sign() > 0 {
		if coef, rest := constFactor(x); rest != nil && new(big.Int).Rem(coef, p.Int).Sign() == 0 {
			// exact: no rounding
			return Mul(BigLit(new(big.Int).Quo(coef, p.Int)), rest)
		}
	}
	if x.Op == "int" && p.Op == "int" {
		// constant fold
		ax := new(big.Int).Abs(x.Int)
		q, r := new(big.Int).QuoRem(ax, p.Int, new(big.Int))
		c := new(big.Int).Mul(r, big.NewInt(2)).Cmp(p.Int)
		if c > 0 || (c == 0 && q.Bit(0) == 1) {
			q.Add(q, big.NewInt(1))
		}
		if x.Int.Sign() < 0 {
			q.Neg(q)
		}
		return BigLit(q)
	}
	return Ite(Ge(x, IntLit(0)), pos(x), Neg(pos(Neg(x))))
}

func (ex *Exec) mathBuiltin(st *State, short, method string, sig *types.Signature, recv Val, args []Val, call *ssa.Call) ([]Result, bool) {
	one := func(v Val) ([]Result, bool) { return []Result{{st: st, ret: v}}, true }
	T := func(v Val) *Term { return v.(*Term) }
	isDec := strings.Contains(short, "(math.LegacyDec).")
	isInt := strings.Contains(short, "(math.Int).")
	isTime := strings.Contains(short, "(time.Time).")
	switch {
	case short == "math.LegacyNewDec":
		return one(Mul(T(args[0]), decOne))
	case short == "math.LegacyZeroDec":
		return one(IntLit(0))
	case short == "math.LegacyOneDec":
		return one(decOne)
	case short == "math.LegacyNewDecFromInt":
		return one(Mul(T(args[0]), decOne))
	case short == "math.LegacyNewDecWithPrec":
		if p := T(args[1]); p.Op == "int" && p.Int.IsInt64() && p.Int.Int64() >= 0 && p.Int.Int64() <= 18 {
			f := new(big.Int).Exp(big.NewInt(10), big.NewInt(18-p.Int.Int64()), nil)
			return one(Mul(T(args[0]), BigLit(f)))
		}
	case short == "math.LegacyNewDecFromStr" || short == "math.LegacyMustNewDecFromStr":
		s := ex.asBytes(st, args[0])
		DeclareUF("dec_of_str", []*Sort{SBytes}, SInt)
		DeclareUF("dec_str_ok", []*Sort{SBytes}, SBool)
		if short == "math.LegacyMustNewDecFromStr" {
			ex.nopanic(st, "decstr", App("dec_str_ok", s), posOfCall(call))
			return one(App("dec_of_str", s))
		}
		e := Det("err_decstr", SErr, s)
		st.AssumeDef(Eq(Eq(e, ErrNil), App("dec_str_ok", s)))
		return one(&TupleV{Elems: []Val{App("dec_of_str", s), e}})
	case short == "math.NewInt" || short == "math.NewIntFromUint64" || short == "math.NewIntFromBigInt":
		return one(T(args[0]))
	case short == "math.ZeroInt":
		return one(IntLit(0))
	case short == "math.OneInt":
		return one(IntLit(1))
	case short == "math.MaxInt":
		a, b := T(args[0]), T(args[1])
		return one(Ite(Ge(a, b), a, b))
	case short == "math.MinInt":
		a, b := T(args[0]), T(args[1])
		return one(Ite(Le(a, b), a, b))
	case short == "math.LegacyMaxDec":
		a, b := T(args[0]), T(args[1])
		return one(Ite(Ge(a, b), a, b))
	case short == "math.LegacyMinDec":
		a, b := T(args[0]), T(args[1])
		return one(Ite(Le(a, b), a, b))
	}
	if isDec || isInt {
		r := T(recv)
		switch method {
		case "Add":
			return one(Add(r, T(args[0])))
		case "Sub":
			return one(Sub(r, T(args[0])))
		case "AddRaw":
			return one(Add(r, T(args[0])))
		case "SubRaw":
			return one(Sub(r, T(args[0])))
		case "Neg":
			return one(Neg(r))
		case "Abs":
			return one(Ite(Ge(r, IntLit(0)), r, Neg(r)))
		case "GT":
			return one(Gt(r, T(args[0])))
		case "GTE":
			return one(Ge(r, T(args[0])))
		case "LT":
			return one(Lt(r, T(args[0])))
		case "LTE":
			return one(Le(r, T(args[0])))
		case "Equal":
			return one(Eq(r, T(args[0])))
		case "IsZero":
			return one(Eq(r, IntLit(0)))
		case "IsNegative":
			return one(Lt(r, IntLit(0)))
		case "IsPositive":
			return one(Gt(r, IntLit(0)))
		case "IsNil":
			return one(False)
		case "BigInt", "BigIntMut":
			return one(r)
		case "String":
			DeclareUF("int_to_str", []*Sort{SInt}, SBytes)
			return one(App("int_to_str", r))
		}
	}
	if isInt {
		r := T(recv)
		switch method {
		case "Mul":
			return one(Mul(r, T(args[0])))
		case "MulRaw":
			return one(Mul(r, T(args[0])))
		case "Quo", "QuoRaw":
			ex.nopanic(st, "divzero", Neq(T(args[0]), IntLit(0)), posOfCall(call))
			return one(truncDiv(r, T(args[0])))
		case "Int64":
			lo, _ := new(big.Int).SetString("-9223372036854775808", 10)
			hi, _ := new(big.Int).SetString("9223372036854775807", 10)
			ex.nopanic(st, "int64-range", And(Le(BigLit(lo), r), Le(r, BigLit(hi))), posOfCall(call))
			return one(r)
		case "Uint64":
			hi, _ := new(big.Int).SetString("18446744073709551615", 10)
			ex.nopanic(st, "uint64-range", And(Le(IntLit(0), r), Le(r, BigLit(hi))), posOfCall(call))
			return one(r)
		case "IsInt64":
			lo, _ := new(big.Int).SetString("-9223372036854775808", 10)
			hi, _ := new(big.Int).SetString("9223372036854775807", 10)
			return one(And(Le(BigLit(lo), r), Le(r, BigLit(hi))))
		case "ToLegacyDec":
			return one(Mul(r, decOne))
		}
	}
	if isDec {
		r := T(recv)
		switch method {
		case "Mul":
			return one(bankers(Mul(r, T(args[0])), decOne))
		case "MulTruncate":
			return one(truncDiv(Mul(r, T(args[0])), decOne))
		case "MulInt", "MulInt64":
			return one(Mul(r, T(args[0])))
		case "Quo":
			ex.nopanic(st, "divzero", Neq(T(args[0]), IntLit(0)), posOfCall(call))
			return one(bankers(truncDiv(Mul(Mul(r, decOne), decOne), T(args[0])), decOne))
		case "QuoTruncate":
			ex.nopanic(st, "divzero", Neq(T(args[0]), IntLit(0)), posOfCall(call))
			return one(truncDiv(truncDiv(Mul(Mul(r, decOne), decOne), T(args[0])), decOne))
		case "QuoInt", "QuoInt64":
			ex.nopanic(st, "divzero", Neq(T(args[0]), IntLit(0)), posOfCall(call))
			return one(truncDiv(r, T(args[0])))
		case "TruncateInt", "TruncateInt64":
			return one(truncDiv(r, decOne))
		case "RoundInt", "RoundInt64":
			return one(bankers(r, decOne))
		case "Ceil":
			q := truncDiv(r, decOne)
			return one(Mul(Ite(And(Gt(r, IntLit(0)), Neq(Mul(q, decOne), r)), Add(q, IntLit(1)), q), decOne))
		case "TruncateDec":
			return one(Mul(truncDiv(r, decOne), decOne))
		}
	}
	if isTime {
		r := T(recv)
		switch method {
		case "Add":
			return one(Add(r, T(args[0])))
		case "Sub":
			return one(Sub(r, T(args[0])))
		case "Before":
			return one(Lt(r, T(args[0])))
		case "After":
			return one(Gt(r, T(args[0])))
		case "Equal":
			return one(Eq(r, T(args[0])))
		case "IsZero":
			return one(Eq(r, zeroTime))
		case "UTC", "Local", "Round", "Truncate":
			return one(r)
		case "UnixNano":
			// nanoseconds since the epoch; our time values are on an arbitrary scale with the zero time far below
			DeclareUF("unixnano", []*Sort{SInt}, SInt)
			return one(App("unixnano", r))
		case "Unix":
			DeclareUF("unixsec", []*Sort{SInt}, SInt)
			return one(App("unixsec", r))
		}
	}
	switch short {
	case "time.Now":
		ex.unsupp("time.Now() called in %s (nondeterministic)", ex.fnPrefix)
		return one(Fresh("wallclock", SInt))
	case "time.Unix":
		DeclareUF("time_of_unix", []*Sort{SInt, SInt}, SInt)
		return one(App("time_of_unix", T(args[0]), T(args[1])))
	}
	return nil, false
}

// zero time.Time: a constant (contracts state `now > zeroTime` where needed)
var zeroTime = IntLit(0)

// ---------------------------------------------------------------- dependency keepers

func isKeeperCall(name string, recvType string) bool {
	return isKeeperIfaceName(name)
}

func (ex *Exec) worldOfArgs(st *State, recv Val, args []Val) (int, bool) {
	if c := ex.findCtx(recv, args); c != nil {
		return c.World, true
	}
	return 0, false
}

// keeperCall: methods of dependency keepers. Queries are uninterpreted functions of (X, args);
// commands additionally move X to cmd_<name>(X, args) and append eff_<name>(args) to the effect log.
func (ex *Exec) keeperCall(st *State, name, short, method string, sig *types.Signature, recv Val, args []Val, call *ssa.Call) ([]Result, bool) {
	if !isKeeperIfaceName(name) {
		return nil, false
	}
	wid, hasCtx := ex.worldOfArgs(st, nil, args)
	var targs []*Term
	for i, a := range args {
		switch a.(type) {
		case *CtxV:
			continue
		case *IfaceV:
			if ex.ctxOf(a) != nil {
				continue
			}
		case *FuncV:
			ex.unsupp("callback passed to dependency %s in %s", short, ex.fnPrefix)
			continue
		case *OpaqueV:
			continue
		}
		var pt types.Type
		if i < sig.Params().Len() {
			pt = sig.Params().At(i).Type()
		} else if sig.Variadic() {
			pt = sig.Params().At(sig.Params().Len() - 1).Type()
		}
		targs = append(targs, ex.asTerm(st, a, pt))
	}
	base := ufBaseName(short)
	var x *Term
	if hasCtx {
		x = st.worlds[wid].X
	}
	// results from the pre-state
	var all []*Term
	if x != nil {
		all = append(all, x)
	}
	all = append(all, targs...)
	var ss []*Sort
	for _, a := range all {
		ss = append(ss, a.Sort)
	}
	mkOn := func(prefix string, res *Sort, all []*Term) *Term {
		var ss []*Sort
		for _, a := range all {
			ss = append(ss, a.Sort)
		}
		n := prefix + base
		if d, ok := ufTable[n]; ok && !sameSorts(d.Args, ss) {
			n = n + "@" + sortsKey(ss)
		}
		DeclareUF(n, ss, res)
		return App(n, all...)
	}
	mk := func(prefix string, res *Sort, idx int) *Term {
		n := prefix + base
		if idx >= 0 {
			n = fmt.Sprintf("%s_r%d", n, idx)
		}
		if d, ok := ufTable[n]; ok && !sameSorts(d.Args, ss) {
			n = n + "@" + sortsKey(ss)
		}
		DeclareUF(n, ss, res)
		return App(n, all...)
	}
	var rets []Val
	for i := 0; i < sig.Results().Len(); i++ {
		rt := sig.Results().At(i).Type()
		idx := i
		if sig.Results().Len() == 1 {
			idx = -1
		}
		r := mk("q_", sortOf(rt), idx)
		// representation invariants of returned values
		s2 := NewState()
		ex.typeInvariant(s2, r, rt, 0)
		for _, c := range s2.pc {
			st.AssumeDef(c)
		}
		rets = append(rets, r)
	}
	if isCommandName(method) && hasCtx {
		w := st.worlds[wid]
		eff := mkOn("eff_", SEffect, targs) // effects are identified by method and arguments only
		nx := mk("cmd_", SXState, -1)
		w.E = ECons(eff, w.E)
		w.X = nx
		ex.recordEffect(wid)
	}
	var ret Val
	switch len(rets) {
	case 0:
	case 1:
		ret = rets[0]
	default:
		ret = &TupleV{Elems: rets}
	}
	return []Result{{st: st, ret: ret}}, true
}

func (ex *Exec) defaultExternal(st *State, name string, sig *types.Signature, recv Val, args []Val) Val {
	var targs []*Term
	var x *Term
	add := func(a Val, pt types.Type) bool {
		switch v := a.(type) {
		case nil:
			return true
		case *CtxV:
			x = st.worlds[v.World].X
			return true
		case *OpaqueV, *StoreV, *IterV:
			return true
		case *FuncV:
			return false
		case *IfaceV:
			if c := ex.ctxOf(v); c != nil {
				x = st.worlds[c.World].X
				return true
			}
		}
		targs = append(targs, ex.asTerm(st, a, pt))
		return true
	}
	ok := true
	if recv != nil && sig.Recv() != nil {
		ok = add(recv, sig.Recv().Type()) && ok
	} else if recv != nil {
		// interface method value
		if t, isT := recv.(*Term); isT {
			targs = append(targs, t)
		} else if iv, isI := recv.(*IfaceV); isI {
			targs = append(targs, ex.asTerm(st, iv, types.NewInterfaceType(nil, nil)))
		}
	}
	for i, a := range args {
		var pt types.Type
		if i < sig.Params().Len() {
			pt = sig.Params().At(i).Type()
		} else if sig.Params().Len() > 0 {
			pt = sig.Params().At(sig.Params().Len() - 1).Type()
		}
		ok = add(a, pt) && ok
	}
	if !ok {
		ex.warn("external %s called with a function value: results unconstrained", shortCallee(name))
		return ex.freshResults(st, sig)
	}
	ex.warn("external %s modelled as uninterpreted pure function", shortCallee(name))
	rs := ex.externalUF(shortCallee(name), sig, x, targs)
	for i, r := range rs {
		s2 := NewState()
		ex.typeInvariant(s2, r, sig.Results().At(i).Type(), 0)
		for _, c := range s2.pc {
			st.AssumeDef(c)
		}
	}
	switch len(rs) {
	case 0:
		return nil
	case 1:
		return rs[0]
	}
	tv := &TupleV{}
	for _, r := range rs {
		tv.Elems = append(tv.Elems, r)
	}
	return tv
}

// repoBuiltin: functions of the repository that are modelled instead of inlined.
func (ex *Exec) repoBuiltin(fr *Frame, fn *ssa.Function, args []Val, st *State, call *ssa.Call) ([]Result, bool) {
	switch fn.Name() {
	case "Logger":
		if fn.Signature.Results().Len() == 1 && strings.Contains(fn.Signature.Results().At(0).Type().String(), "log.Logger") {
			return []Result{{st: st, ret: &OpaqueV{"logger"}}}, true
		}
	}
	return nil, false
}
