package main

// Term DAG with hash-consing and local simplification; SMT-LIB printing lives in smt.go.

import (
	"fmt"
	"math/big"
	"sort"
	"strings"
)

type SortKind int

const (
	KInt SortKind = iota
	KBool
	KBytes  // uninterpreted sort Bytes (strings and []byte)
	KDT     // generated datatype (struct, slice header, option, map)
	KArray  // (Array Index Elem)
	KUninterp
)

type Sort struct {
	Name  string
	Kind  SortKind
	Index *Sort // arrays
	Elem  *Sort // arrays
	DT    *DTDecl
}

type DTField struct {
	Name string
	Sort *Sort
}

type DTCons struct {
	Name   string
	Fields []DTField
}

type DTDecl struct {
	Name  string
	Cons  []DTCons
	Sort  *Sort
	Order int
}

var (
	SInt   = &Sort{Name: "Int", Kind: KInt}
	SBool  = &Sort{Name: "Bool", Kind: KBool}
	SBytes = &Sort{Name: "Bytes", Kind: KBytes}
)

var sortTable = map[string]*Sort{"Int": SInt, "Bool": SBool, "Bytes": SBytes}
var dtOrder int

func ArraySort(idx, elem *Sort) *Sort {
	n := "(Array " + idx.Name + " " + elem.Name + ")"
	if s, ok := sortTable[n]; ok {
		return s
	}
	s := &Sort{Name: n, Kind: KArray, Index: idx, Elem: elem}
	sortTable[n] = s
	return s
}

func UninterpSort(name string) *Sort {
	if s, ok := sortTable[name]; ok {
		return s
	}
	s := &Sort{Name: name, Kind: KUninterp}
	sortTable[name] = s
	return s
}

// NewDT registers a datatype; cons may be filled in later (for recursive references) through the returned decl.
func NewDT(name string) *DTDecl {
	if s, ok := sortTable[name]; ok {
		return s.DT
	}
	d := &DTDecl{Name: name}
	dtOrder++
	d.Order = dtOrder
	s := &Sort{Name: name, Kind: KDT, DT: d}
	d.Sort = s
	sortTable[name] = s
	return d
}

type Term struct {
	id   int
	Op   string // see below
	Args []*Term
	Sort *Sort
	Int  *big.Int // for "int"
	Str  string   // names: var name, uf name, constructor/selector/tester name, literal bytes for "lit"
	// quantifiers
	Bound []*Term // for forall/exists: bound variables (Op "bvar")
	Pats  [][]*Term
	hasBV bool // contains a bound variable
}

// Ops:
//  int true false var bvar
//  not and or => ite = distinct
//  + - * neg div mod (SMT semantics, emitted through godiv/gomod helper where needed) < <= > >=
//  select store constarr
//  cons sel is        (datatypes; Str = constructor / selector name / constructor name)
//  uf                 (Str = function name; declared in ufTable)
//  forall exists
//  bytes: cat lit be8 be4 b1 tm pb (Str = type tag for pb) — all of sort Bytes

var termTable = map[string]*Term{}
var termCount int

type UFDecl struct {
	Name string
	Args []*Sort
	Res  *Sort
}

var ufTable = map[string]*UFDecl{}

func DeclareUF(name string, args []*Sort, res *Sort) *UFDecl {
	if d, ok := ufTable[name]; ok {
		return d
	}
	d := &UFDecl{name, args, res}
	ufTable[name] = d
	return d
}

func mk(op string, sort *Sort, str string, iv *big.Int, args ...*Term) *Term {
	var sb strings.Builder
	sb.WriteString(op)
	sb.WriteByte('|')
	sb.WriteString(sort.Name)
	sb.WriteByte('|')
	sb.WriteString(str)
	if iv != nil {
		sb.WriteByte('#')
		sb.WriteString(iv.String())
	}
	hb := false
	for _, a := range args {
		fmt.Fprintf(&sb, ",%d", a.id)
		if a.hasBV {
			hb = true
		}
	}
	key := sb.String()
	if t, ok := termTable[key]; ok {
		return t
	}
	termCount++
	t := &Term{id: termCount, Op: op, Args: args, Sort: sort, Int: iv, Str: str, hasBV: hb || op == "bvar"}
	termTable[key] = t
	return t
}

var (
	True  = mk("true", SBool, "", nil)
	False = mk("false", SBool, "", nil)
)

func IntLit(v int64) *Term       { return mk("int", SInt, "", big.NewInt(v)) }
func BigLit(v *big.Int) *Term    { return mk("int", SInt, "", new(big.Int).Set(v)) }
func Var(name string, s *Sort) *Term { return mk("var", s, name, nil) }
func BVar(name string, s *Sort) *Term {
	return mk("bvar", s, name, nil)
}

var freshCounter = map[string]int{}

func Fresh(prefix string, s *Sort) *Term {
	freshCounter[prefix]++
	return Var(fmt.Sprintf("%s!%d", prefix, freshCounter[prefix]), s)
}
// Det returns a symbol whose name is determined by the identities of the given terms: evaluating the same
// definitional construct twice (code path and specification) yields the same symbol.
func Det(prefix string, s *Sort, ids ...*Term) *Term {
	// a Skolem function of the defining terms (so that it also works under quantifiers)
	var args []*Term
	var ss []*Sort
	key := prefix + "$"
	for _, t := range ids {
		if t == nil {
			key += "x"
			continue
		}
		key += "a"
		args = append(args, t)
		ss = append(ss, t.Sort)
	}
	name := key
	if d, ok := ufTable[name]; ok {
		same := len(d.Args) == len(ss) && d.Res == s
		if same {
			for i := range ss {
				if d.Args[i] != ss[i] {
					same = false
				}
			}
		}
		if !same {
			name = key + "@" + s.Name
			for _, x := range ss {
				name += "," + x.Name
			}
		}
	}
	DeclareUF(name, ss, s)
	return App(name, args...)
}

func DetName(prefix string, ids ...*Term) string {
	var sb strings.Builder
	sb.WriteString(prefix)
	sb.WriteString("@")
	for i, t := range ids {
		if i > 0 {
			sb.WriteByte('_')
		}
		if t == nil {
			sb.WriteString("x")
		} else {
			fmt.Fprintf(&sb, "%d", t.id)
		}
	}
	return sb.String()
}

func FreshName(prefix string) string {
	freshCounter[prefix]++
	return fmt.Sprintf("%s!%d", prefix, freshCounter[prefix])
}

func BoolLit(b bool) *Term {
	if b {
		return True
	}
	return False
}

func (t *Term) IsTrue() bool  { return t == True }
func (t *Term) IsFalse() bool { return t == False }
func (t *Term) IsIntLit() bool { return t.Op == "int" }

func Not(a *Term) *Term {
	switch {
	case a == True:
		return False
	case a == False:
		return True
	case a.Op == "not":
		return a.Args[0]
	}
	return mk("not", SBool, "", nil, a)
}

func And(as ...*Term) *Term {
	var out []*Term
	seen := map[int]bool{}
	for _, a := range as {
		if a == True {
			continue
		}
		if a == False {
			return False
		}
		if a.Op == "and" {
			for _, b := range a.Args {
				if !seen[b.id] {
					seen[b.id] = true
					out = append(out, b)
				}
			}
			continue
		}
		if !seen[a.id] {
			seen[a.id] = true
			out = append(out, a)
		}
	}
	for _, a := range out {
		if a.Op == "not" && seen[a.Args[0].id] {
			if debugConflict != nil {
				debugConflict(a)
			}
			return False
		}
	}
	if len(out) == 0 {
		return True
	}
	if len(out) == 1 {
		return out[0]
	}
	return mk("and", SBool, "", nil, out...)
}

var debugConflict func(*Term)

func Or(as ...*Term) *Term {
	var out []*Term
	seen := map[int]bool{}
	for _, a := range as {
		if a == False {
			continue
		}
		if a == True {
			return True
		}
		if a.Op == "or" {
			for _, b := range a.Args {
				if !seen[b.id] {
					seen[b.id] = true
					out = append(out, b)
				}
			}
			continue
		}
		if !seen[a.id] {
			seen[a.id] = true
			out = append(out, a)
		}
	}
	for _, a := range out {
		if a.Op == "not" && seen[a.Args[0].id] {
			return True
		}
	}
	if len(out) == 0 {
		return False
	}
	if len(out) == 1 {
		return out[0]
	}
	return mk("or", SBool, "", nil, out...)
}

func Implies(a, b *Term) *Term {
	if a == True {
		return b
	}
	if a == False || b == True {
		return True
	}
	if b == False {
		return Not(a)
	}
	return mk("=>", SBool, "", nil, a, b)
}

func Iff(a, b *Term) *Term { return Eq(a, b) }

func Ite(c, a, b *Term) *Term {
	if c == True {
		return a
	}
	if c == False {
		return b
	}
	if a == b {
		return a
	}
	if a.Sort != b.Sort {
		panic(fmt.Sprintf("ite sort mismatch %s vs %s", a.Sort.Name, b.Sort.Name))
	}
	if a.Sort == SBool {
		if a == True && b == False {
			return c
		}
		if a == False && b == True {
			return Not(c)
		}
		if a == True {
			return Or(c, b)
		}
		if b == False {
			return And(c, a)
		}
		if a == False {
			return And(Not(c), b)
		}
		if b == True {
			return Or(Not(c), a)
		}
	}
	if c.Op == "not" {
		return Ite(c.Args[0], b, a)
	}
	return mk("ite", a.Sort, "", nil, c, a, b)
}

// provablyDistinct: cheap syntactic disequality.
func provablyDistinct(a, b *Term) bool {
	if a == b {
		return false
	}
	if a.Op == "int" && b.Op == "int" {
		return a.Int.Cmp(b.Int) != 0
	}
	if (a == True && b == False) || (a == False && b == True) {
		return true
	}
	if a.Op == "cons" && b.Op == "cons" {
		if a.Str != b.Str {
			return true
		}
		for i := range a.Args {
			if provablyDistinct(a.Args[i], b.Args[i]) {
				return true
			}
		}
		return false
	}
	if a.Sort == SBytes {
		return bytesDistinct(a, b)
	}
	// x+c vs x+d
	if a.Sort == SInt {
		ba, ca := splitOffset(a)
		bb, cb := splitOffset(b)
		if ba == bb && ca != cb {
			return true
		}
	}
	return false
}

func splitOffset(t *Term) (*Term, int64) {
	if t.Op == "int" && t.Int.IsInt64() {
		return nil, t.Int.Int64()
	}
	if t.Op == "+" && len(t.Args) == 2 {
		if t.Args[1].Op == "int" && t.Args[1].Int.IsInt64() {
			return t.Args[0], t.Args[1].Int.Int64()
		}
		if t.Args[0].Op == "int" && t.Args[0].Int.IsInt64() {
			return t.Args[1], t.Args[0].Int.Int64()
		}
	}
	if t.Op == "-" && len(t.Args) == 2 && t.Args[1].Op == "int" && t.Args[1].Int.IsInt64() {
		return t.Args[0], -t.Args[1].Int.Int64()
	}
	return t, 0
}

func Eq(a, b *Term) *Term {
	if a == b {
		return True
	}
	if a.Sort != b.Sort {
		panic(fmt.Sprintf("eq sort mismatch %s vs %s (%s, %s)", a.Sort.Name, b.Sort.Name, a.Op, b.Op))
	}
	if provablyDistinct(a, b) {
		return False
	}
	if a.Sort == SBool {
		if a == True {
			return b
		}
		if b == True {
			return a
		}
		if a == False {
			return Not(b)
		}
		if b == False {
			return Not(a)
		}
	}
	if a.Op == "cons" && b.Op == "cons" && a.Str == b.Str {
		var cs []*Term
		for i := range a.Args {
			cs = append(cs, Eq(a.Args[i], b.Args[i]))
		}
		return And(cs...)
	}
	if a.Sort == SBytes {
		if r := bytesEq(a, b); r != nil {
			return r
		}
	}
	// ite lifting when one side is a literal-ish value and the other an ite of such
	if a.Op == "ite" && isValueLike(b) && (isValueLike(a.Args[1]) || isValueLike(a.Args[2])) {
		return Ite(a.Args[0], Eq(a.Args[1], b), Eq(a.Args[2], b))
	}
	if b.Op == "ite" && isValueLike(a) && (isValueLike(b.Args[1]) || isValueLike(b.Args[2])) {
		return Ite(b.Args[0], Eq(a, b.Args[1]), Eq(a, b.Args[2]))
	}
	if a.id > b.id {
		a, b = b, a
	}
	return mk("=", SBool, "", nil, a, b)
}

func isValueLike(t *Term) bool {
	switch t.Op {
	case "int", "true", "false", "lit":
		return true
	case "cons":
		return len(t.Args) == 0
	case "var":
		return t.Str == "bnil" || t.Str == "err_nil" || t.Str == "iface_nil"
	}
	return false
}

func Neq(a, b *Term) *Term { return Not(Eq(a, b)) }

func intBin(op string, a, b *Term) *Term {
	if a.Op == "int" && b.Op == "int" {
		r := new(big.Int)
		switch op {
		case "+":
			return BigLit(r.Add(a.Int, b.Int))
		case "-":
			return BigLit(r.Sub(a.Int, b.Int))
		case "*":
			return BigLit(r.Mul(a.Int, b.Int))
		}
	}
	switch op {
	case "+":
		if a.Op == "int" && a.Int.Sign() == 0 {
			return b
		}
		if b.Op == "int" && b.Int.Sign() == 0 {
			return a
		}
		// (x + c) + d
		if b.Op == "int" {
			if base, c := splitOffset(a); base != nil && base != a && b.Int.IsInt64() {
				return Add(base, IntLit(c+b.Int.Int64()))
			}
		}
		if b.Op == "int" && b.Int.Sign() < 0 {
			return mk("-", SInt, "", nil, a, BigLit(new(big.Int).Neg(b.Int)))
		}
	case "-":
		if b.Op == "int" && b.Int.Sign() == 0 {
			return a
		}
		if a == b {
			return IntLit(0)
		}
		if b.Op == "int" {
			if base, c := splitOffset(a); base != nil && base != a && b.Int.IsInt64() {
				return Add(base, IntLit(c-b.Int.Int64()))
			}
		}
		if b.Op == "int" && b.Int.Sign() < 0 {
			return mk("+", SInt, "", nil, a, BigLit(new(big.Int).Neg(b.Int)))
		}
	case "*":
		if a.Op == "int" && a.Int.Cmp(big.NewInt(1)) == 0 {
			return b
		}
		if b.Op == "int" && b.Int.Cmp(big.NewInt(1)) == 0 {
			return a
		}
		if (a.Op == "int" && a.Int.Sign() == 0) || (b.Op == "int" && b.Int.Sign() == 0) {
			return IntLit(0)
		}
	}
	return mk(op, SInt, "", nil, a, b)
}

func Add(a, b *Term) *Term { return intBin("+", a, b) }
func Sub(a, b *Term) *Term { return intBin("-", a, b) }
func Mul(a, b *Term) *Term { return intBin("*", a, b) }
func Neg(a *Term) *Term    { return Sub(IntLit(0), a) }

// Div/Mod: Go semantics (truncate toward zero). Printed through helper functions godiv/gomod.
func Div(a, b *Term) *Term {
	if a.Op == "int" && b.Op == "int" && b.Int.Sign() != 0 {
		return BigLit(new(big.Int).Quo(a.Int, b.Int))
	}
	if b.Op == "int" && b.Int.Cmp(big.NewInt(1)) == 0 {
		return a
	}
	return mk("godiv", SInt, "", nil, a, b)
}
func Mod(a, b *Term) *Term {
	if a.Op == "int" && b.Op == "int" && b.Int.Sign() != 0 {
		return BigLit(new(big.Int).Rem(a.Int, b.Int))
	}
	return mk("gomod", SInt, "", nil, a, b)
}

// EDiv: SMT (euclidean/floor for positive divisor) division, used by spec-level arithmetic.
func EDiv(a, b *Term) *Term { return mk("div", SInt, "", nil, a, b) }
func EMod(a, b *Term) *Term { return mk("mod", SInt, "", nil, a, b) }

func cmp(op string, a, b *Term) *Term {
	if a.Op == "int" && b.Op == "int" {
		c := a.Int.Cmp(b.Int)
		switch op {
		case "<":
			return BoolLit(c < 0)
		case "<=":
			return BoolLit(c <= 0)
		case ">":
			return BoolLit(c > 0)
		case ">=":
			return BoolLit(c >= 0)
		}
	}
	if a == b {
		return BoolLit(op == "<=" || op == ">=")
	}
	// normalise to < and <=
	switch op {
	case ">":
		return cmp("<", b, a)
	case ">=":
		return cmp("<=", b, a)
	}
	ba, ca := splitOffset(a)
	bb, cb := splitOffset(b)
	if ba == bb && ba != nil {
		if op == "<" {
			return BoolLit(ca < cb)
		}
		return BoolLit(ca <= cb)
	}
	return mk(op, SBool, "", nil, a, b)
}
func Lt(a, b *Term) *Term { return cmp("<", a, b) }
func Le(a, b *Term) *Term { return cmp("<=", a, b) }
func Gt(a, b *Term) *Term { return cmp(">", a, b) }
func Ge(a, b *Term) *Term { return cmp(">=", a, b) }

func Select(arr, idx *Term) *Term {
	if arr.Sort.Kind != KArray {
		panic("select on non-array " + arr.Sort.Name)
	}
	if idx.Sort != arr.Sort.Index {
		panic(fmt.Sprintf("select index sort %s, want %s", idx.Sort.Name, arr.Sort.Index.Name))
	}
	a := arr
	for {
		switch a.Op {
		case "store":
			if a.Args[1] == idx {
				return a.Args[2]
			}
			if provablyDistinct(a.Args[1], idx) {
				a = a.Args[0]
				continue
			}
		case "constarr":
			return a.Args[0]
		case "ite":
			// push select through ite of arrays when both sides simplify
			if !idx.hasBV || true {
				x := Select(a.Args[1], idx)
				y := Select(a.Args[2], idx)
				return Ite(a.Args[0], x, y)
			}
		}
		break
	}
	return mk("select", arr.Sort.Elem, "", nil, a, idx)
}

func Store(arr, idx, val *Term) *Term {
	if arr.Sort.Kind != KArray {
		panic("store on non-array")
	}
	if idx.Sort != arr.Sort.Index || val.Sort != arr.Sort.Elem {
		panic(fmt.Sprintf("store sort mismatch: arr %s idx %s val %s", arr.Sort.Name, idx.Sort.Name, val.Sort.Name))
	}
	if arr.Op == "store" && arr.Args[1] == idx {
		return Store(arr.Args[0], idx, val)
	}
	return mk("store", arr.Sort, "", nil, arr, idx, val)
}

func ConstArr(s *Sort, v *Term) *Term { return mk("constarr", s, "", nil, v) }

func Cons(d *DTDecl, ci int, args ...*Term) *Term {
	c := d.Cons[ci]
	if len(args) != len(c.Fields) {
		panic("cons arity " + c.Name)
	}
	for i, f := range c.Fields {
		if args[i].Sort != f.Sort {
			panic(fmt.Sprintf("cons %s field %s: got sort %s want %s", c.Name, f.Name, args[i].Sort.Name, f.Sort.Name))
		}
	}
	// eta: mk(sel0(x), sel1(x), ...) = x  (single constructor types only)
	if len(d.Cons) == 1 && len(args) > 0 {
		var base *Term
		ok := true
		for i, a := range args {
			if a.Op == "sel" && a.Str == c.Fields[i].Name && a.Args[0].Sort == d.Sort {
				if base == nil {
					base = a.Args[0]
				} else if base != a.Args[0] {
					ok = false
				}
			} else {
				ok = false
			}
		}
		if ok && base != nil {
			return base
		}
	}
	return mk("cons", d.Sort, c.Name, nil, args...)
}

func (d *DTDecl) findSel(name string) (int, int) {
	for ci, c := range d.Cons {
		for fi, f := range c.Fields {
			if f.Name == name {
				return ci, fi
			}
		}
	}
	return -1, -1
}

func Sel(d *DTDecl, ci, fi int, x *Term) *Term {
	f := d.Cons[ci].Fields[fi]
	if x.Sort != d.Sort {
		panic(fmt.Sprintf("sel %s on %s", f.Name, x.Sort.Name))
	}
	if x.Op == "cons" {
		if x.Str == d.Cons[ci].Name {
			return x.Args[fi]
		}
	}
	if x.Op == "ite" {
		return Ite(x.Args[0], Sel(d, ci, fi, x.Args[1]), Sel(d, ci, fi, x.Args[2]))
	}
	return mk("sel", f.Sort, f.Name, nil, x)
}

func Is(d *DTDecl, ci int, x *Term) *Term {
	if len(d.Cons) == 1 {
		return True
	}
	if x.Op == "cons" {
		return BoolLit(x.Str == d.Cons[ci].Name)
	}
	if x.Op == "ite" {
		return Ite(x.Args[0], Is(d, ci, x.Args[1]), Is(d, ci, x.Args[2]))
	}
	return mk("is", SBool, d.Cons[ci].Name, nil, x)
}

func App(name string, args ...*Term) *Term {
	d, ok := ufTable[name]
	if !ok {
		panic("undeclared uf " + name)
	}
	if len(args) != len(d.Args) {
		panic("uf arity " + name)
	}
	for i := range args {
		if args[i].Sort != d.Args[i] {
			panic(fmt.Sprintf("uf %s arg %d: got %s want %s", name, i, args[i].Sort.Name, d.Args[i].Name))
		}
	}
	return mk("uf", d.Res, name, nil, args...)
}

func Forall(bound []*Term, body *Term, pats ...[]*Term) *Term { return quant("forall", bound, body, pats) }
func Exists(bound []*Term, body *Term, pats ...[]*Term) *Term { return quant("exists", bound, body, pats) }

func quant(op string, bound []*Term, body *Term, pats [][]*Term) *Term {
	if body == True || body == False {
		return body
	}
	// drop unused bound vars
	used := map[int]bool{}
	collectBV(body, used, map[int]bool{})
	var bs []*Term
	for _, b := range bound {
		if used[b.id] {
			bs = append(bs, b)
		}
	}
	if len(bs) == 0 {
		return body
	}
	args := []*Term{body}
	args = append(args, bs...)
	t := mk(op, SBool, fmt.Sprintf("q%d", len(bs)), nil, args...)
	if t.Bound == nil {
		t.Bound = bs
		t.Pats = pats
		// a quantifier closes its bound variables
		t.hasBV = false
		rem := map[int]bool{}
		for k := range used {
			rem[k] = true
		}
		for _, b := range bs {
			delete(rem, b.id)
		}
		if len(rem) > 0 {
			t.hasBV = true
		}
	}
	return t
}

func collectBV(t *Term, out map[int]bool, seen map[int]bool) {
	if !t.hasBV || seen[t.id] {
		return
	}
	seen[t.id] = true
	if t.Op == "bvar" {
		out[t.id] = true
		return
	}
	for _, a := range t.Args {
		collectBV(a, out, seen)
	}
}

// Subst replaces terms (by id) in t.
func Subst(t *Term, m map[int]*Term) *Term {
	cache := map[int]*Term{}
	var rec func(t *Term) *Term
	rec = func(t *Term) *Term {
		if r, ok := m[t.id]; ok {
			return r
		}
		if len(t.Args) == 0 {
			return t
		}
		if r, ok := cache[t.id]; ok {
			return r
		}
		changed := false
		na := make([]*Term, len(t.Args))
		for i, a := range t.Args {
			na[i] = rec(a)
			if na[i] != a {
				changed = true
			}
		}
		r := t
		if changed {
			r = rebuild(t, na)
		}
		cache[t.id] = r
		return r
	}
	return rec(t)
}

func rebuild(t *Term, na []*Term) *Term {
	switch t.Op {
	case "not":
		return Not(na[0])
	case "and":
		return And(na...)
	case "or":
		return Or(na...)
	case "=>":
		return Implies(na[0], na[1])
	case "ite":
		return Ite(na[0], na[1], na[2])
	case "=":
		return Eq(na[0], na[1])
	case "+":
		return Add(na[0], na[1])
	case "-":
		return Sub(na[0], na[1])
	case "*":
		return Mul(na[0], na[1])
	case "godiv":
		return Div(na[0], na[1])
	case "gomod":
		return Mod(na[0], na[1])
	case "div":
		return EDiv(na[0], na[1])
	case "mod":
		return EMod(na[0], na[1])
	case "<":
		return Lt(na[0], na[1])
	case "<=":
		return Le(na[0], na[1])
	case "select":
		return Select(na[0], na[1])
	case "store":
		return Store(na[0], na[1], na[2])
	case "constarr":
		return ConstArr(t.Sort, na[0])
	case "cons":
		d := t.Sort.DT
		for ci, c := range d.Cons {
			if c.Name == t.Str {
				return Cons(d, ci, na...)
			}
		}
	case "sel":
		d := t.Args[0].Sort.DT
		ci, fi := d.findSel(t.Str)
		return Sel(d, ci, fi, na[0])
	case "is":
		d := t.Args[0].Sort.DT
		for ci, c := range d.Cons {
			if c.Name == t.Str {
				return Is(d, ci, na[0])
			}
		}
	case "uf":
		return App(t.Str, na...)
	case "forall", "exists":
		bs := na[1:]
		return quant(t.Op, bs, na[0], t.Pats)
	case "cat":
		return Cat(na...)
	case "be8", "be4", "b1", "tm":
		return mk(t.Op, SBytes, "", nil, na...)
	case "pb":
		return mk(t.Op, SBytes, t.Str, nil, na...)
	}
	panic("rebuild: op " + t.Op)
}

// Size of the DAG under t.
func dagSize(ts ...*Term) int {
	seen := map[int]bool{}
	var rec func(t *Term)
	rec = func(t *Term) {
		if seen[t.id] {
			return
		}
		seen[t.id] = true
		for _, a := range t.Args {
			rec(a)
		}
	}
	for _, t := range ts {
		rec(t)
	}
	return len(seen)
}

func (t *Term) String() string {
	var sb strings.Builder
	printTermDebug(&sb, t, 0)
	return sb.String()
}

func printTermDebug(sb *strings.Builder, t *Term, depth int) {
	if depth > 8 {
		sb.WriteString("…")
		return
	}
	switch t.Op {
	case "int":
		sb.WriteString(t.Int.String())
	case "true", "false":
		sb.WriteString(t.Op)
	case "var", "bvar":
		sb.WriteString(t.Str)
	case "lit":
		fmt.Fprintf(sb, "%q", t.Str)
	default:
		sb.WriteByte('(')
		sb.WriteString(t.Op)
		if t.Str != "" {
			sb.WriteByte(':')
			sb.WriteString(t.Str)
		}
		for _, a := range t.Args {
			sb.WriteByte(' ')
			printTermDebug(sb, a, depth+1)
		}
		sb.WriteByte(')')
	}
}

func sortedKeys[V any](m map[string]V) []string {
	var ks []string
	for k := range m {
		ks = append(ks, k)
	}
	sort.Strings(ks)
	return ks
}
