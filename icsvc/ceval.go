package main

// Evaluation of contract expressions against symbolic states.

import (
	"fmt"
	"go/constant"
	"go/types"
	"math/big"
	"strings"

	"golang.org/x/tools/go/ssa"
)

type TV struct {
	V Val
	T types.Type // Go type when known
}

type Env struct {
	ex    *Exec
	cur   *State
	old   *State
	entry *State            // loop-entry state (entry(x))
	prev  *State            // state at the start of the current loop iteration (prev(x) in step clauses)
	vars  map[string]TV     // parameters (entry values), lets, bound variables, result
	fr    *Frame            // locals for loop invariants
	ctx   *CtxV
	imports map[string]*types.Package
	pkg   *ssa.Package
	recv  TV
}

func (e *Env) withVar(name string, v TV) *Env {
	n := *e
	n.vars = make(map[string]TV, len(e.vars)+1)
	for k, x := range e.vars {
		n.vars[k] = x
	}
	n.vars[name] = v
	return &n
}

func (e *Env) inState(st *State) *Env {
	n := *e
	n.cur = st
	return &n
}

type evalError struct{ msg string }

func efail(format string, a ...interface{}) { panic(evalError{fmt.Sprintf(format, a...)}) }

// EvalBool evaluates a clause to a Bool term; errors are returned.
func (e *Env) EvalBool(x *Expr) (t *Term, err error) {
	defer func() {
		if r := recover(); r != nil {
			if ee, ok := r.(evalError); ok {
				err = fmt.Errorf("%s (in %s)", ee.msg, x.String())
				return
			}
			if e.ex != nil && e.ex.trace {
				panic(r)
			}
			// an executor panic while evaluating a clause (e.g. a value of the post-state used under old()):
			// the clause is unevaluable, which is reported, instead of crashing the whole run
			err = fmt.Errorf("engine panic while evaluating the clause: %v (in %s)", r, x.String())
		}
	}()
	tv := e.eval(x)
	bt, ok := tv.V.(*Term)
	if !ok || bt.Sort != SBool {
		return nil, fmt.Errorf("clause is not boolean: %s", x.String())
	}
	return bt, nil
}

func (e *Env) term(x *Expr) *Term {
	tv := e.eval(x)
	return e.toTerm(tv)
}

func (e *Env) toTerm(tv TV) *Term {
	if t, ok := tv.V.(*Term); ok {
		return t
	}
	if tv.T == nil {
		efail("cannot convert %s to a term without a type", describeVal(tv.V))
	}
	return e.ex.asTerm(e.cur, tv.V, tv.T)
}

var basicTypes = map[string]types.Type{
	"int": types.Typ[types.Int], "int64": types.Typ[types.Int64], "int32": types.Typ[types.Int32],
	"uint64": types.Typ[types.Uint64], "uint32": types.Typ[types.Uint32], "uint": types.Typ[types.Uint],
	"bool": types.Typ[types.Bool], "string": types.Typ[types.String], "byte": types.Typ[types.Byte],
}

// mathint: unbounded integer at spec level
func (e *Env) resolveType(s string) (types.Type, *Sort) {
	s = strings.TrimSpace(s)
	switch s {
	case "int", "Int", "mathint":
		return nil, SInt
	case "bool":
		return nil, SBool
	case "bytes", "Bytes":
		return types.NewSlice(types.Typ[types.Byte]), SBytes
	case "string":
		return types.Typ[types.String], SBytes
	case "Store":
		return nil, SStore
	case "ELog":
		return nil, elogDT.Sort
	case "XState":
		return nil, SXState
	}
	if strings.HasPrefix(s, "[]") {
		et, _ := e.resolveType(s[2:])
		if et == nil {
			if bt, ok := basicTypes[s[2:]]; ok {
				et = bt
			} else {
				efail("cannot resolve element type %q", s)
			}
		}
		t := types.NewSlice(et)
		return t, sortOf(t)
	}
	if strings.HasPrefix(s, "*") {
		et, _ := e.resolveType(s[1:])
		t := types.NewPointer(et)
		return t, sortOf(t)
	}
	if bt, ok := basicTypes[s]; ok {
		return bt, sortOf(bt)
	}
	var pkg *types.Package
	name := s
	if j := strings.Index(s, "."); j > 0 {
		pkg = e.imports[s[:j]]
		name = s[j+1:]
		if pkg == nil {
			efail("unknown package %q in type %q (missing //@ import?)", s[:j], s)
		}
	} else if e.pkg != nil {
		pkg = e.pkg.Pkg
	}
	if pkg == nil {
		efail("cannot resolve type %q", s)
	}
	o := pkg.Scope().Lookup(name)
	tn, ok := o.(*types.TypeName)
	if !ok {
		efail("type %q not found", s)
	}
	return tn.Type(), sortOf(tn.Type())
}

func (e *Env) world() *World {
	if e.ctx == nil {
		efail("no ctx in scope for ghost state")
	}
	w := e.cur.worlds[e.ctx.World]
	if w == nil {
		efail("world %d missing", e.ctx.World)
	}
	return w
}

func (e *Env) worldOf(tv TV) *World {
	c, ok := tv.V.(*CtxV)
	if !ok {
		efail("not an sdk.Context value")
	}
	w := e.cur.worlds[c.World]
	if w == nil {
		efail("world %d missing", c.World)
	}
	return w
}

func (e *Env) lookupLocal(name string) (TV, bool) {
	if e.fr == nil {
		return TV{}, false
	}
	// name or name#k (k-th local of that name)
	want := 1
	base := name
	if j := strings.Index(name, "#"); j > 0 {
		fmt.Sscanf(name[j+1:], "%d", &want)
		base = name[:j]
	}
	k := 0
	for _, al := range e.fr.fn.Locals {
		if al.Comment == base && al.Block() != nil && al.Referrers() != nil && len(*al.Referrers()) > 0 {
			k++
			if k == want {
				et := al.Type().(*types.Pointer).Elem()
				p, ok := e.fr.env[al].(*PtrV)
				if !ok {
					// declared on a path not taken: its value is unspecified
					return TV{Var("undef_local_"+name, sortOf(et)), et}, true
				}
				c, has := e.cur.heap[p.Obj.id]
				if !has {
					return TV{Var("undef_local_"+name, sortOf(et)), et}, true
				}
				return TV{c, et}, true
			}
		}
	}
	// variables that escape (captured by a closure or address taken) are heap allocations, not in fn.Locals
	k = 0
	for _, b := range e.fr.fn.Blocks {
		for _, in := range b.Instrs {
			al, ok := in.(*ssa.Alloc)
			if !ok || !al.Heap || al.Comment != base {
				continue
			}
			k++
			if k == want {
				et := al.Type().(*types.Pointer).Elem()
				p, ok := e.fr.env[al].(*PtrV)
				if !ok {
					return TV{Var("undef_local_"+name, sortOf(et)), et}, true
				}
				c, has := e.cur.heap[p.Obj.id]
				if !has {
					return TV{Var("undef_local_"+name, sortOf(et)), et}, true
				}
				return TV{c, et}, true
			}
		}
	}
	return TV{}, false
}

func (e *Env) eval(x *Expr) TV {
	switch x.Kind {
	case "int":
		bi, _ := new(big.Int).SetString(x.Val, 10)
		return TV{BigLit(bi), nil}
	case "bool":
		return TV{BoolLit(x.Val == "true"), nil}
	case "str":
		return TV{Lit(x.Val), types.Typ[types.String]}
	case "nil":
		return TV{nil, nil}
	case "ident":
		return e.evalIdent(x)
	case "sel":
		return e.evalSel(x)
	case "index":
		return e.evalIndex(x)
	case "slice":
		efail("slice expressions are not supported in contracts")
	case "call":
		return e.evalCall(x)
	case "unary":
		if x.Val == "*" {
			// pointer dereference
			base := e.eval(x.Args[0])
			if base.T == nil {
				if t, ok := base.V.(*Term); ok && isOptSort(t.Sort) {
					return TV{OptVal(t), nil}
				}
				efail("dereference of an untyped value")
			}
			pt, ok := types.Unalias(base.T).Underlying().(*types.Pointer)
			if !ok {
				efail("dereference of a non-pointer")
			}
			switch pv := base.V.(type) {
			case *PtrV:
				return TV{e.ex.load(e.cur, pv), pt.Elem()}
			case *Term:
				if o, ok := e.cur.optObj[pv.id]; ok {
					return TV{e.ex.content(e.cur, o), pt.Elem()}
				}
				return TV{OptVal(pv), pt.Elem()}
			}
			efail("dereference of an unsupported pointer value")
		}
		a := e.term(x.Args[0])
		if x.Val == "!" {
			return TV{Not(a), nil}
		}
		return TV{Neg(a), nil}
	case "binary":
		return e.evalBinary(x)
	case "cond":
		c := e.term(x.Args[0])
		a := e.eval(x.Args[1])
		b := e.eval(x.Args[2])
		at, bt := e.toTerm(a), e.toTerm(b)
		return TV{Ite(c, at, bt), a.T}
	case "quant":
		n := e
		var bs []*Term
		for _, b := range x.Vars {
			gt, s := e.resolveType(b.Type)
			bv := BVar(b.Name+"!q", s)
			bs = append(bs, bv)
			n = n.withVar(b.Name, TV{bv, gt})
		}
		body := n.term(x.Args[0])
		if x.Val == "forall" {
			return TV{Forall(bs, body), nil}
		}
		return TV{Exists(bs, body), nil}
	}
	efail("cannot evaluate %s", x.String())
	return TV{}
}

func (e *Env) evalIdent(x *Expr) TV {
	if v, ok := e.vars[x.Val]; ok {
		return v
	}
	if strings.HasPrefix(x.Val, "$") {
		// ghost call history: $Func = the last call of Func on this path (fields: .count .ret / .ret0.. / .<param>)
		name := strings.TrimPrefix(x.Val, "$")
		recs := e.cur.calls[name]
		return TV{&CallHist{Name: name, Recs: recs}, nil}
	}
	switch x.Val {
	case "S":
		return TV{e.world().S, nil}
	case "E":
		return TV{e.world().E, nil}
	case "X":
		return TV{e.world().X, nil}
	case "now":
		return TV{e.ctx.Time, nil}
	case "height":
		return TV{e.ctx.Height, nil}
	case "bnil":
		return TV{BNil, nil}
	case "MaxTotalVotingPower":
		return TV{BigLit(new(big.Int).Div(new(big.Int).Lsh(big.NewInt(1), 63), big.NewInt(8))), nil}
	case "MaxInt64":
		return TV{BigLit(new(big.Int).Sub(new(big.Int).Lsh(big.NewInt(1), 63), big.NewInt(1))), nil}
	}
	if v, ok := e.lookupLocal(x.Val); ok {
		return v
	}
	if c, ok := e.ex.contracts.Consts[x.Val]; ok {
		return e.eval(c)
	}
	// package-level constant / var of the function's package
	if e.pkg != nil {
		if tv, ok := e.pkgMember(e.pkg.Pkg, x.Val); ok {
			return tv
		}
	}
	efail("unknown identifier %q", x.Val)
	return TV{}
}

func (e *Env) pkgMember(pkg *types.Package, name string) (TV, bool) {
	o := pkg.Scope().Lookup(name)
	switch c := o.(type) {
	case *types.Const:
		switch c.Val().Kind() {
		case constant.Int:
			bi, _ := new(big.Int).SetString(c.Val().ExactString(), 10)
			return TV{BigLit(bi), c.Type()}, true
		case constant.String:
			return TV{Lit(constant.StringVal(c.Val())), c.Type()}, true
		case constant.Bool:
			return TV{BoolLit(constant.BoolVal(c.Val())), c.Type()}, true
		}
	case *types.Var:
		// global variable: same object and default content as the executor uses
		if sp := e.ex.prog.Package(pkg); sp != nil {
			if g := sp.Var(name); g != nil {
				pv := e.ex.val(nil, g, e.cur).(*PtrV)
				return TV{e.ex.content(e.cur, pv.Obj), c.Type()}, true
			}
		}
		s := sortOf(c.Type())
		if s == SErr {
			return TV{Var("errvar_"+name, SErr), c.Type()}, true
		}
		return TV{Var("glob_"+name, s), c.Type()}, true
	}
	return TV{}, false
}

func structFieldIndex(t types.Type, name string) (int, types.Type, bool) {
	st, ok := t.Underlying().(*types.Struct)
	if !ok {
		return 0, nil, false
	}
	for i := 0; i < st.NumFields(); i++ {
		if st.Field(i).Name() == name {
			return i, st.Field(i).Type(), true
		}
	}
	return 0, nil, false
}

func (e *Env) evalSel(x *Expr) TV {
	// package member?
	if b := x.Args[0]; b.Kind == "ident" {
		if _, isVar := e.vars[b.Val]; !isVar {
			if _, isLocal := e.lookupLocal(b.Val); !isLocal {
				if pkg, ok := e.imports[b.Val]; ok {
					if tv, ok := e.pkgMember(pkg, x.Val); ok {
						return tv
					}
					efail("package member %s.%s is not a constant or variable", b.Val, x.Val)
				}
			}
		}
	}
	base := e.eval(x.Args[0])
	return e.selectField(base, x.Val)
}

func (e *Env) selectField(base TV, name string) TV {
	// pseudo fields
	if tu, ok := base.V.(*TupleV); ok {
		var k int
		fmt.Sscanf(name, "%d", &k)
		var et types.Type
		if tt, ok := base.T.(*types.Tuple); ok {
			et = tt.At(k).Type()
		}
		return TV{tu.Elems[k], et}
	}
	if ch, ok := base.V.(*CallHist); ok {
		if name == "count" {
			return TV{IntLit(int64(len(ch.Recs))), nil}
		}
		if name == "called" {
			c := False
			for _, r := range ch.Recs {
				if r.Cond == nil {
					c = True
				} else {
					c = Or(c, r.Cond)
				}
			}
			return TV{c, nil}
		}
		if len(ch.Recs) == 0 {
			efail("$%s.%s: the function was not called on this path (guard with $%s.called)", ch.Name, name, ch.Name)
		}
		field := func(rec CallRec) (Val, types.Type) {
			if name == "ret" {
				if rec.Sig.Results().Len() == 1 {
					return rec.Ret, rec.Sig.Results().At(0).Type()
				}
				return rec.Ret, rec.Sig.Results()
			}
			if strings.HasPrefix(name, "ret") {
				var k int
				fmt.Sscanf(name[3:], "%d", &k)
				if tv, ok := rec.Ret.(*TupleV); ok && k < len(tv.Elems) {
					return tv.Elems[k], rec.Sig.Results().At(k).Type()
				}
			}
			for i, p := range rec.Params {
				if p.Name() == name {
					return rec.Args[i], p.Type()
				}
			}
			efail("$%s has no field %s", ch.Name, name)
			return nil, nil
		}
		// the last record whose condition holds
		last := ch.Recs[len(ch.Recs)-1]
		v, t := field(last)
		allUncond := true
		for _, r := range ch.Recs {
			if r.Cond != nil {
				allUncond = false
			}
		}
		if allUncond {
			return TV{v, t}
		}
		toT := func(rec CallRec, v Val, t types.Type) *Term {
			if tt, ok := v.(*Term); ok {
				return tt
			}
			st := rec.St
			if st == nil {
				st = e.cur
			}
			if _, isTuple := v.(*TupleV); isTuple {
				efail("$%s.%s: tuple-valued field of a conditionally recorded call (select a component)", ch.Name, name)
			}
			return e.ex.asTerm(st, v, t)
		}
		acc := toT(last, v, t)
		for k := len(ch.Recs) - 2; k >= 0; k-- {
			r := ch.Recs[k]
			later := False
			for _, l := range ch.Recs[k+1:] {
				if l.Cond == nil {
					later = True
				} else {
					later = Or(later, l.Cond)
				}
			}
			vk, tk := field(r)
			acc = Ite(later, acc, toT(r, vk, tk))
		}
		return TV{acc, t}
	}
	if it, ok := base.V.(*IterV); ok {
		switch name {
		case "pos":
			return TV{e.ex.content(e.cur, it.Obj), nil}
		case "n":
			return TV{it.It.N, nil}
		}
		efail("iterator pseudo-field %s (pos, n, key(i) are available)", name)
	}
	if base.T == nil {
		efail("field %s of untyped value", name)
	}
	t := types.Unalias(base.T)
	// auto-deref pointers
	if p, ok := t.Underlying().(*types.Pointer); ok {
		switch pv := base.V.(type) {
		case *PtrV:
			base = TV{e.ex.load(e.cur, pv), p.Elem()}
		case *Term:
			if o, ok := e.cur.optObj[pv.id]; ok {
				base = TV{e.ex.content(e.cur, o), p.Elem()}
			} else {
				base = TV{OptVal(pv), p.Elem()}
			}
		}
		t = p.Elem()
	}
	fi, ft, ok := structFieldIndex(t, name)
	if !ok {
		// embedded struct promotion (one level)
		if st, isS := t.Underlying().(*types.Struct); isS {
			for i := 0; i < st.NumFields(); i++ {
				if st.Field(i).Embedded() {
					inner := e.selectField(base, st.Field(i).Name())
					if _, _, ok2 := structFieldIndex(derefType(inner.T), name); ok2 {
						return e.selectField(inner, name)
					}
				}
			}
		}
		efail("no field %s in %s", name, t.String())
	}
	bt := e.toTerm(base)
	return TV{Sel(bt.Sort.DT, 0, fi, bt), ft}
}

func derefType(t types.Type) types.Type {
	if t == nil {
		return nil
	}
	if p, ok := t.Underlying().(*types.Pointer); ok {
		return p.Elem()
	}
	return t
}

func (e *Env) evalIndex(x *Expr) TV {
	base := e.eval(x.Args[0])
	switch bv := base.V.(type) {
	case *SliceV:
		i := e.term(x.Args[1])
		arr := e.ex.content(e.cur, bv.Obj).(*Term)
		return TV{Select(arr, Add(bv.Off, i)), bv.Elem}
	case *MapV:
		k := e.term(x.Args[1])
		c := e.ex.content(e.cur, bv.Obj).(*Term)
		return TV{Select(MapVals(c), k), bv.Elt}
	case *Term:
		i := e.term(x.Args[1])
		switch {
		case bv.Sort.Kind == KArray:
			return TV{Select(bv, i), nil}
		case isSliceSort(bv.Sort):
			var et types.Type
			if base.T != nil {
				if sl, ok := base.T.Underlying().(*types.Slice); ok {
					et = sl.Elem()
				}
			}
			return TV{Select(SlArr(bv), i), et}
		case isMapSort(bv.Sort):
			var et types.Type
			if base.T != nil {
				if m, ok := base.T.Underlying().(*types.Map); ok {
					et = m.Elem()
				}
			}
			return TV{Select(MapVals(bv), i), et}
		case bv.Sort == SBytes:
			return TV{App("bat", bv, i), nil}
		}
	}
	efail("cannot index %s", describeVal(base.V))
	return TV{}
}

func (e *Env) lenOf(tv TV) *Term {
	switch v := tv.V.(type) {
	case *SliceV:
		return v.Len
	case *ByteSlV:
		return BLen(e.ex.content(e.cur, v.Obj).(*Term))
	case *Term:
		switch {
		case v.Sort == SBytes:
			return BLen(v)
		case isSliceSort(v.Sort):
			return SlLen(v)
		}
	}
	efail("len of %s", describeVal(tv.V))
	return nil
}

func (e *Env) evalBinary(x *Expr) TV {
	switch x.Val {
	case "&&":
		l := e.term(x.Args[0])
		if l == False {
			return TV{False, nil} // short circuit: the right operand may be undefined
		}
		return TV{And(l, e.term(x.Args[1])), nil}
	case "||":
		l := e.term(x.Args[0])
		if l == True {
			return TV{True, nil}
		}
		return TV{Or(l, e.term(x.Args[1])), nil}
	case "==>":
		l := e.term(x.Args[0])
		if l == False {
			return TV{True, nil}
		}
		return TV{Implies(l, e.term(x.Args[1])), nil}
	case "<==>":
		return TV{Eq(e.term(x.Args[0]), e.term(x.Args[1])), nil}
	case "==", "!=":
		a := e.eval(x.Args[0])
		b := e.eval(x.Args[1])
		var r *Term
		switch {
		case a.V == nil && x.Args[0].Kind == "nil":
			r = e.ex.isNilVal(e.cur, b.V, b.T)
		case b.V == nil && x.Args[1].Kind == "nil":
			r = e.ex.isNilVal(e.cur, a.V, a.T)
		default:
			ta, okA := a.V.(*TupleV)
			tb, okB := b.V.(*TupleV)
			if okA && okB && len(ta.Elems) == len(tb.Elems) {
				var cs []*Term
				for i := range ta.Elems {
					var et types.Type
					if tt, ok := a.T.(*types.Tuple); ok {
						et = tt.At(i).Type()
					}
					x, y := e.toTerm(TV{ta.Elems[i], et}), e.toTerm(TV{tb.Elems[i], et})
					cs = append(cs, Eq(x, y))
				}
				r = And(cs...)
				break
			}
			at, bt := e.toTerm(a), e.toTerm(b)
			if at.Sort != bt.Sort {
				efail("comparison of %s with %s", at.Sort.Name, bt.Sort.Name)
			}
			r = Eq(at, bt)
		}
		if x.Val == "!=" {
			r = Not(r)
		}
		return TV{r, nil}
	}
	a, b := e.term(x.Args[0]), e.term(x.Args[1])
	if a.Sort == SBytes && x.Val == "+" {
		return TV{Cat(a, b), types.Typ[types.String]}
	}
	if a.Sort == SBytes && b.Sort == SBytes {
		// lexicographic order of strings / byte strings: the same uninterpreted relation the executor uses
		DeclareUF("bytes_lt", []*Sort{SBytes, SBytes}, SBool)
		switch x.Val {
		case "<":
			return TV{App("bytes_lt", a, b), nil}
		case ">":
			return TV{App("bytes_lt", b, a), nil}
		case "<=":
			return TV{Not(App("bytes_lt", b, a)), nil}
		case ">=":
			return TV{Not(App("bytes_lt", a, b)), nil}
		}
	}
	if a.Sort != SInt || b.Sort != SInt {
		efail("arithmetic on %s / %s", a.Sort.Name, b.Sort.Name)
	}
	switch x.Val {
	case "+":
		return TV{Add(a, b), nil}
	case "-":
		return TV{Sub(a, b), nil}
	case "*":
		return TV{Mul(a, b), nil}
	case "/":
		return TV{Div(a, b), nil}
	case "%":
		return TV{Mod(a, b), nil}
	case "<":
		return TV{Lt(a, b), nil}
	case "<=":
		return TV{Le(a, b), nil}
	case ">":
		return TV{Gt(a, b), nil}
	case ">=":
		return TV{Ge(a, b), nil}
	}
	efail("operator %s", x.Val)
	return TV{}
}

func (e *Env) evalCall(x *Expr) TV {
	f := x.Args[0]
	args := x.Args[1:]
	if f.Kind == "ident" {
		switch f.Val {
		case "old":
			if e.old == nil {
				efail("old() outside a two-state context")
			}
			return e.inState(e.old).eval(args[0])
		case "entry":
			if e.entry == nil {
				efail("entry() outside a loop invariant")
			}
			return e.inState(e.entry).eval(args[0])
		case "prev":
			if e.prev == nil {
				efail("prev() outside a loop step clause")
			}
			return e.inState(e.prev).eval(args[0])
		case "sameworld": // two sdk.Context values see the same store, dependency state and effect log
			wa, wb := e.worldOf(e.eval(args[0])), e.worldOf(e.eval(args[1]))
			return TV{And(Eq(wa.S, wb.S), Eq(wa.X, wb.X), Eq(wa.E, wb.E)), nil}
		case "has": // map membership: has(m, k)
			tv := e.eval(args[0])
			k := e.term(args[1])
			switch m := tv.V.(type) {
			case *MapV:
				c := e.ex.content(e.cur, m.Obj).(*Term)
				return TV{Select(MapHas(c), k), nil}
			case *Term:
				if isMapSort(m.Sort) {
					return TV{Select(MapHas(m), k), nil}
				}
			}
			efail("has(): not a map")
		case "len":
			return TV{e.lenOf(e.eval(args[0])), nil}
		case "min", "max":
			a, b := e.term(args[0]), e.term(args[1])
			if f.Val == "min" {
				return TV{Ite(Le(a, b), a, b), nil}
			}
			return TV{Ite(Le(a, b), b, a), nil}
		case "int", "int64", "uint64", "uint32", "int32":
			return TV{e.term(args[0]), nil}
		case "ite":
			return TV{Ite(e.term(args[0]), e.term(args[1]), e.term(args[2])), nil}
		case "ediv":
			return TV{EDiv(e.term(args[0]), e.term(args[1])), nil}
		case "emod":
			return TV{EMod(e.term(args[0]), e.term(args[1])), nil}
		case "blen":
			return TV{BLen(e.term(args[0])), nil}
		case "bpre":
			return TV{BPre(e.term(args[0]), e.term(args[1])), nil}
		case "fam":
			return TV{Fam(e.term(args[0])), nil}
		case "present":
			return TV{Neq(Select(e.world().S, e.term(args[0])), BNil), nil}
		case "arr": // the array view of a slice value
			tv := e.eval(args[0])
			switch v := tv.V.(type) {
			case *SliceV:
				return TV{e.ex.shiftedArr(e.cur, v), nil}
			case *Term:
				if isSliceSort(v.Sort) {
					return TV{SlArr(v), nil}
				}
			}
			efail("arr() of non-slice")
		case "some":
			return TV{OptSome(e.term(args[0])), nil}
		case "isSome":
			return TV{OptIsSome(e.term(args[0])), nil}
		case "val":
			return TV{OptVal(e.term(args[0])), nil}
		case "be8":
			return TV{BE8(e.term(args[0])), nil}
		case "econs":
			return TV{ECons(e.term(args[0]), e.term(args[1])), nil}
		case "elog": // elog(E0, e1, ..., en) = E0 followed by e1..en
			l := e.term(args[0])
			for _, a := range args[1:] {
				l = ECons(e.term(a), l)
			}
			return TV{l, nil}
		}
		if sp, ok := e.ex.contracts.Specs[f.Val]; ok {
			return e.applySpec(sp, args)
		}
		if v, ok := e.vars[f.Val]; ok {
			if fv, isF := v.V.(*FuncV); isF {
				// call of a function-typed parameter
				var vals []Val
				for _, a := range args {
					vals = append(vals, e.eval(a).V)
				}
				var ret Val
				var sig *types.Signature
				if fv.Fn != nil {
					ret = e.ex.callPureB(fv.Fn, vals, fv.Bindings, e.cur)
					sig = fv.Fn.Signature
				} else {
					rs := e.ex.callBuiltinClosure(fv, vals, e.cur.Clone())
					ret = rs[0].ret
					sig = fv.Sig
				}
				var rt types.Type
				if sig != nil {
					switch sig.Results().Len() {
					case 0:
					case 1:
						rt = sig.Results().At(0).Type()
					default:
						rt = sig.Results()
					}
				}
				return TV{ret, rt}
			}
		}
		if _, isUF := ufTable[f.Val]; isUF || strings.HasPrefix(f.Val, "eff_") || strings.HasPrefix(f.Val, "q_") || strings.HasPrefix(f.Val, "ext_") || strings.HasPrefix(f.Val, "cmd_") {
			// uninterpreted dependency symbol used by the executor (effects, queries)
			if d, ok := ufTable[f.Val]; ok {
				var ts []*Term
				for _, a := range args {
					ts = append(ts, e.term(a))
				}
				_ = d
				return TV{App(f.Val, ts...), nil}
			}
			if strings.HasPrefix(f.Val, "eff_") {
				// effect symbols are identified by method and arguments: declare on first use
				var ts []*Term
				var ss []*Sort
				for _, a := range args {
					t := e.term(a)
					ts = append(ts, t)
					ss = append(ss, t.Sort)
				}
				DeclareUF(f.Val, ss, SEffect)
				return TV{App(f.Val, ts...), nil}
			}
			efail("dependency symbol %s is not declared (the code under contract does not call it)", f.Val)
		}
		// Go function of the function's own package
		if e.pkg != nil {
			if fn := e.pkg.Func(f.Val); fn != nil {
				return e.callGo(fn, nil, args)
			}
		}
		efail("unknown function %q", f.Val)
	}
	if f.Kind == "sel" {
		// pkg.Func(...)
		if b := f.Args[0]; b.Kind == "ident" {
			if _, isVar := e.vars[b.Val]; !isVar {
				if pkg, ok := e.imports[b.Val]; ok {
					sp := e.ex.prog.Package(pkg)
					if sp != nil {
						if fn := sp.Func(f.Val); fn != nil {
							return e.callGo(fn, nil, args)
						}
					}
					// type conversion T(x)
					if tn, ok := pkg.Scope().Lookup(f.Val).(*types.TypeName); ok && len(args) == 1 {
						v := e.eval(args[0])
						return TV{v.V, tn.Type()}
					}
					// external package function: uninterpreted, same naming as the executor
					return e.callExternal(pkg, f.Val, args)
				}
			}
		}
		// method call
		recv := e.eval(f.Args[0])
		if it, ok := recv.V.(*IterV); ok {
			switch f.Val {
			case "key":
				return TV{App(it.It.KeyAt, e.term(args[0])), types.NewSlice(types.Typ[types.Byte])}
			case "idx":
				return TV{App(it.It.IdxOf, e.term(args[0])), nil}
			}
			efail("iterator pseudo-method %s", f.Val)
		}
		if recv.T == nil {
			efail("method call on untyped value")
		}
		if it, isI := recv.T.Underlying().(*types.Interface); isI {
			// dependency interface: same uninterpreted symbols as the executor uses at call sites
			for i := 0; i < it.NumMethods(); i++ {
				m := it.Method(i)
				if m.Name() != f.Val {
					continue
				}
				sig := m.Type().(*types.Signature)
				var vals []Val
				for _, a := range args {
					vals = append(vals, e.eval(a).V)
				}
				st2 := e.cur.Clone()
				save := e.ex.specMode
				e.ex.specMode++
				name := "(" + types.TypeString(recv.T, nil) + ")." + m.Name()
				rs := e.ex.callExternal(nil, name, sig, recv.V, vals, st2, nil)
				e.ex.specMode = save
				for _, d := range rs[0].st.defs {
					if !d.hasBV {
						e.cur.AssumeDef(d)
					}
				}
				var rt types.Type
				switch sig.Results().Len() {
				case 0:
				case 1:
					rt = sig.Results().At(0).Type()
				default:
					rt = sig.Results()
				}
				return TV{rs[0].ret, rt}
			}
			efail("no method %s on interface %s", f.Val, recv.T.String())
		}
		ms := e.ex.prog.MethodSets.MethodSet(recv.T)
		sel := ms.Lookup(e.pkgOf(recv.T), f.Val)
		if sel == nil {
			// try pointer receiver
			ms = e.ex.prog.MethodSets.MethodSet(types.NewPointer(recv.T))
			sel = ms.Lookup(e.pkgOf(recv.T), f.Val)
		}
		if sel == nil {
			efail("no method %s on %s", f.Val, recv.T.String())
		}
		fn := e.ex.prog.MethodValue(sel)
		if fn == nil {
			efail("abstract method %s", f.Val)
		}
		return e.callGo(fn, &recv, args)
	}
	efail("cannot call %s", f.String())
	return TV{}
}

func (e *Env) pkgOf(t types.Type) *types.Package {
	if n, ok := types.Unalias(derefType(t)).(*types.Named); ok {
		return n.Obj().Pkg()
	}
	return nil
}

func (e *Env) callExternal(pkg *types.Package, name string, args []*Expr) TV {
	o := pkg.Scope().Lookup(name)
	fo, ok := o.(*types.Func)
	if !ok {
		efail("unknown external function %s.%s", pkg.Name(), name)
	}
	sig := fo.Type().(*types.Signature)
	var ts []*Term
	for _, a := range args {
		ts = append(ts, e.term(a))
	}
	rs := e.ex.externalUF(pkg.Path()+"."+name, sig, nil, ts)
	if len(rs) == 1 {
		return TV{rs[0], sig.Results().At(0).Type()}
	}
	tv := &TupleV{}
	for _, r := range rs {
		tv.Elems = append(tv.Elems, r)
	}
	return TV{tv, sig.Results()}
}

// callGo symbolically executes a Go function in the current state (without keeping its effects) and merges
// the results of all its paths into one value.
func (e *Env) callGo(fn *ssa.Function, recv *TV, args []*Expr) TV {
	var vals []Val
	if recv != nil {
		rv := recv.V
		var rtyp types.Type
		if fn.Signature.Recv() != nil {
			rtyp = fn.Signature.Recv().Type()
		} else if len(fn.Params) > 0 {
			rtyp = fn.Params[0].Type()
		}
		if rtyp == nil {
			efail("method %s without receiver type", fn.Name())
		}
		if pt, ok := rtyp.Underlying().(*types.Pointer); ok {
			if t, isT := rv.(*Term); isT && t.Sort == sortOf(pt.Elem()) {
				o := e.cur.NewObj("specrecv", pt.Elem(), t)
				rv = &PtrV{Obj: o}
			}
		} else if p, isP := rv.(*PtrV); isP {
			rv = e.ex.load(e.cur, p)
		} else if t, isT := rv.(*Term); isT && isOptSort(t.Sort) && t.Sort != sortOf(rtyp) {
			rv = OptVal(t)
		}
		vals = append(vals, rv)
	}
	sig := fn.Signature
	for i, a := range args {
		tv := e.eval(a)
		_ = i
		vals = append(vals, tv.V)
	}
	want := sig.Params().Len()
	if sig.Recv() != nil {
		want++
	}
	if fn.Blocks != nil {
		want = len(fn.Params)
	}
	if len(vals) != want {
		efail("call of %s with %d arguments, want %d", fn.Name(), len(vals), want)
	}
	// coerce spec-level terms to executor conventions
	for i, p := range fn.Params {
		if vals[i] == nil {
			vals[i] = e.ex.zeroVal(p.Type())
		}
	}
	var v Val
	if ct := e.ex.lookupContract(fn); ct != nil && ct.Pure && e.ex.contractAtCallSite(fn, ct) {
		// modular: the specification sees the same uninterpreted result as a call site (the contract's ensures
		// are assumed for it)
		st2 := e.cur.Clone()
		save := e.ex.specMode
		e.ex.specMode++
		rs := e.ex.applyContract(nil, fn, ct, vals, st2, nil)
		e.ex.specMode = save
		for _, d := range rs[0].st.defs {
			if !d.hasBV {
				e.cur.AssumeDef(d)
			}
		}
		// ensures of the contract are facts about the uninterpreted result
		for _, c := range rs[0].st.pc[len(e.cur.pc):] {
			if !c.hasBV {
				e.cur.AssumeDef(c)
			}
		}
		v = rs[0].ret
	} else {
		v = e.ex.callPure(fn, vals, e.cur)
	}
	var rt types.Type
	switch sig.Results().Len() {
	case 0:
	case 1:
		rt = sig.Results().At(0).Type()
	default:
		rt = sig.Results()
	}
	return TV{v, rt}
}

func (e *Env) applySpec(sp *SpecFunc, args []*Expr) TV {
	e.ex.declareSpec(sp, e)
	if len(args) != len(sp.Params) {
		efail("spec %s: %d arguments, want %d", sp.Name, len(args), len(sp.Params))
	}
	var ts []*Term
	for i, a := range args {
		tv := e.eval(a)
		t := e.specArg(tv, sp.paramSorts[i])
		ts = append(ts, t)
	}
	rt, _ := e.resolveType(sp.Result)
	return TV{App("spec_"+sp.Name, ts...), rt}
}

// specArg converts a value to the parameter sort of a spec function (slices are passed as their array view).
func (e *Env) specArg(tv TV, want *Sort) *Term {
	switch v := tv.V.(type) {
	case *SliceV:
		if want.Kind == KArray {
			return e.ex.shiftedArr(e.cur, v)
		}
	case *Term:
		if want.Kind == KArray && isSliceSort(v.Sort) {
			return SlArr(v)
		}
		if v.Sort == want {
			return v
		}
	}
	t := e.toTerm(tv)
	if t.Sort != want {
		efail("spec argument of sort %s, want %s", t.Sort.Name, want.Name)
	}
	return t
}

// declareSpec registers the UF for a spec function. Slice-typed parameters are represented by arrays.
func (ex *Exec) declareSpec(sp *SpecFunc, e *Env) {
	if sp.uf != nil {
		return
	}
	var ps []*Sort
	for _, b := range sp.Params {
		_, s := e.resolveType(b.Type)
		if isSliceSort(s) {
			s = s.DT.Cons[0].Fields[0].Sort
		}
		ps = append(ps, s)
	}
	_, rs := e.resolveType(sp.Result)
	sp.paramSorts = ps
	sp.uf = DeclareUF("spec_"+sp.Name, ps, rs)
	specEnv[sp.Name] = e
}

var specEnv = map[string]*Env{}

// specBodyAt instantiates the body of a spec function at the given argument terms.
func specBodyAt(sp *SpecFunc, args []*Term) (*Term, error) {
	base := specEnv[sp.Name]
	n := &Env{ex: base.ex, cur: NewState(), imports: base.imports, pkg: base.pkg, vars: map[string]TV{}}
	for i, b := range sp.Params {
		gt, s := n.resolveType(b.Type)
		if isSliceSort(s) {
			// array view: wrap as a slice term with an unknown length symbol (bodies index, never take len)
			n.vars[b.Name] = TV{MkSl(args[i].Sort.Elem, args[i], Var("speclen!"+b.Name, SInt)), gt}
		} else {
			n.vars[b.Name] = TV{args[i], gt}
		}
	}
	var res *Term
	var err error
	func() {
		defer func() {
			if r := recover(); r != nil {
				if ee, ok := r.(evalError); ok {
					err = fmt.Errorf("spec %s: %s", sp.Name, ee.msg)
					return
				}
				panic(r)
			}
		}()
		res = n.term(sp.Body)
	}()
	return res, err
}

const specUnfoldDepth = 2

// specUnfoldings returns definitional equalities f(args) = body[args] for the spec-function applications
// occurring (outside quantifiers) in the roots, unfolded specUnfoldDepth levels.
func specUnfoldings(roots []*Term) []*Term {
	if len(specEnv) == 0 {
		return nil
	}
	var out []*Term
	done := map[int]bool{}
	frontier := roots
	for depth := 0; depth < specUnfoldDepth; depth++ {
		var apps []*Term
		seen := map[int]bool{}
		var rec func(t *Term)
		rec = func(t *Term) {
			if seen[t.id] {
				return
			}
			seen[t.id] = true
			if t.Op == "uf" && strings.HasPrefix(t.Str, "spec_") && !t.hasBV && !done[t.id] {
				apps = append(apps, t)
			}
			for _, a := range t.Args {
				rec(a)
			}
		}
		for _, r := range frontier {
			rec(r)
		}
		var next []*Term
		for _, a := range apps {
			done[a.id] = true
			sp := specEnv[strings.TrimPrefix(a.Str, "spec_")]
			if sp == nil {
				continue
			}
			spf := sp.ex.contracts.Specs[strings.TrimPrefix(a.Str, "spec_")]
			body, err := specBodyAt(spf, a.Args)
			if err != nil {
				panic(err)
			}
			eq := Eq(a, body)
			out = append(out, eq)
			next = append(next, eq)
		}
		frontier = next
		if len(next) == 0 {
			break
		}
	}
	return out
}
