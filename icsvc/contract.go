package main

import (
	"sync"
	"fmt"
	"os"
	"go/types"
	"strings"

	"golang.org/x/tools/go/ssa"
)

type EntrySnapshot struct {
	st     *State
	params map[string]TV
	ctx    *CtxV
}

var contractImports = map[string]map[string]string{} // contract file -> alias -> import path

var fileImports = map[string]map[string]string{} // package path -> alias -> import path (from the package's source files)

func (ex *Exec) importsFor(fn *ssa.Function) map[string]*types.Package {
	out := map[string]*types.Package{}
	if fn.Pkg == nil {
		if fn.Parent() != nil {
			return ex.importsFor(fn.Parent())
		}
		return out
	}
	byPath := map[string]*types.Package{}
	for _, imp := range fn.Pkg.Pkg.Imports() {
		byPath[imp.Path()] = imp
	}
	byPath[fn.Pkg.Pkg.Path()] = fn.Pkg.Pkg
	for alias, path := range fileImports[fn.Pkg.Pkg.Path()] {
		if p, ok := byPath[path]; ok {
			out[alias] = p
		}
	}
	for alias, path := range contractImports[fn.Pkg.Pkg.Path()] {
		if p, ok := byPath[path]; ok {
			out[alias] = p
		}
	}
	return out
}

func (ex *Exec) paramTVs(fn *ssa.Function, args []Val) (map[string]TV, *CtxV) {
	m := map[string]TV{}
	var ctx *CtxV
	for i, p := range fn.Params {
		m[p.Name()] = TV{args[i], p.Type()}
		if c := ex.ctxOf(args[i]); c != nil && ctx == nil {
			ctx = c
		}
	}
	return m, ctx
}

func (ex *Exec) envFor(fn *ssa.Function, params map[string]TV, ctx *CtxV, cur, old *State) *Env {
	if old == nil {
		old = cur // in a one-state context old(e) is e
	}
	e := &Env{ex: ex, cur: cur, old: old, vars: map[string]TV{}, ctx: ctx, imports: ex.importsFor(fn), pkg: fn.Pkg}
	if fn.Pkg == nil && fn.Parent() != nil {
		e.pkg = fn.Parent().Pkg
	}
	for k, v := range params {
		e.vars[k] = v
	}
	return e
}

func (ex *Exec) bindLets(e *Env, lets []LetDef, errs *[]string) *Env {
	for _, l := range lets {
		func() {
			defer func() {
				if r := recover(); r != nil {
					if ee, ok := r.(evalError); ok {
						*errs = append(*errs, fmt.Sprintf("let %s: %s", l.Name, ee.msg))
						return
					}
					panic(r)
				}
			}()
			tv := e.eval(l.Expr)
			e = e.withVar(l.Name, tv)
		}()
	}
	return e
}

func resultVars(e *Env, sig *types.Signature, ret Val) *Env {
	n := sig.Results().Len()
	switch n {
	case 0:
	case 1:
		rt := sig.Results().At(0).Type()
		e = e.withVar("result", TV{ret, rt})
		if nm := sig.Results().At(0).Name(); nm != "" && nm != "_" {
			e = e.withVar(nm, TV{ret, rt})
		}
	default:
		tv := ret.(*TupleV)
		e = e.withVar("result", TV{tv, sig.Results()})
		for i := 0; i < n; i++ {
			rt := sig.Results().At(i).Type()
			e = e.withVar(fmt.Sprintf("result%d", i), TV{tv.Elems[i], rt})
			if nm := sig.Results().At(i).Name(); nm != "" && nm != "_" {
				e = e.withVar(nm, TV{tv.Elems[i], rt})
			}
			if sortOf(rt) == SErr && i == n-1 {
				e = e.withVar("err", TV{tv.Elems[i], rt})
			}
		}
	}
	return e
}

// ---------------------------------------------------------------- use of a contract at a call site

var callSiteCounter = map[string]int{}

// callee contracts relied on at call sites during this run (reported in the evidence file)
var usedContracts = map[string]string{}
var usedContractsMu sync.Mutex

func (ex *Exec) applyContract(fr *Frame, fn *ssa.Function, ct *Contract, args []Val, st *State, call *ssa.Call) []Result {
	params, ctx := ex.paramTVs(fn, args)
	pre := st.Clone()
	var errs []string
	env := ex.envFor(fn, params, ctx, st, nil)
	env = ex.bindLets(env, ct.Lets, &errs)
	if ex.specMode == 0 {
		kind := "contract"
		if ct.Trusted {
			kind = "trusted"
		} else if ct.Pure {
			kind = "pure"
		}
		usedContractsMu.Lock()
		usedContracts[ct.Func] = kind
		usedContractsMu.Unlock()
	}
	short := ct.Func
	for _, rq := range ct.Requires {
		c, err := env.EvalBool(rq.Expr)
		if err != nil {
			ex.unsupp("contract %s requires: %v", ct.Func, err)
			continue
		}
		name := fmt.Sprintf("%s#pre:%s", ex.fnPrefix, short)
		if rq.Label != "" {
			name += "." + rq.Label
		}
		if strings.HasPrefix(rq.Label, "W-") {
			// a well-formedness assumption about stored state / data (established by other functions): it is an
			// assumption of the callee's proof, reported in the evidence, and not demanded from every caller
			if ex.specMode == 0 {
				ex.assumed[fmt.Sprintf("W: %s assumes [%s] of its inputs (not checked at call sites)", short, rq.Label)]++
			}
			st.Assume(c)
			continue
		}
		ex.oblige(st, "pre", name, c, posOfCall(call))
		st.Assume(c)
	}
	// effects
	eff := ex.fnEffects(fn)
	if !ct.Pure {
		if eff.world && ctx != nil {
			w := st.worlds[ctx.World]
			neu := &World{S: Fresh("S_after_"+fn.Name(), SStore), X: Fresh("X_after_"+fn.Name(), SXState), E: Fresh("E_after_"+fn.Name(), w.E.Sort)}
			// inferred modifies clause: the key families (and dependency effects) the callee's current body can write
			ws := ex.fnWriteSet(fn, args, pre, ctx)
			ex.frameFor(st, w, neu, ws)
			st.worlds[ctx.World] = neu
		}
		if eff.ptrArgs {
			for _, a := range args {
				switch q := a.(type) {
				case *SliceV:
					cur := ex.content(st, q.Obj).(*Term)
					st.heap[q.Obj.id] = Fresh("arr_after_"+fn.Name(), cur.Sort)
				case *PtrV:
					if cur, ok := ex.content(st, q.Obj).(*Term); ok && len(q.Path) == 0 {
						nv := Fresh("obj_after_"+fn.Name(), cur.Sort)
						st.heap[q.Obj.id] = nv
					}
				case *MapV:
					cur := ex.content(st, q.Obj).(*Term)
					st.heap[q.Obj.id] = Fresh("map_after_"+fn.Name(), cur.Sort)
				}
			}
		}
	}
	var ret Val
	if ct.Pure {
		nd := len(pre.defs)
		ret = ex.pureResult(fn, args, pre, ctx)
		// representation invariants of the uninterpreted result (non-negative lengths, integer ranges)
		for _, d := range pre.defs[nd:] {
			st.AssumeDef(d)
		}
	} else {
		ret = ex.freshResults(st, fn.Signature)
	}
	post := ex.envFor(fn, params, ctx, st, pre)
	post = resultVars(post, fn.Signature, ret)
	post = ex.bindLets(post, ct.Lets, &errs)
	for _, en := range ct.Ensures {
		if en.Stretch || strings.Contains(en.Src, "$") {
			// clauses about the callee's own ghost call history are proved for the callee but say nothing to callers
			continue
		}
		c, err := post.EvalBool(en.Expr)
		if err != nil {
			if strings.Contains(err.Error(), "unknown identifier") {
				// a clause over the callee's own locals (final values): provable for the callee, meaningless to callers.
				// A misspelt name is still reported when the callee itself is verified.
				continue
			}
			ex.unsupp("contract %s ensures[%s]: %v", ct.Func, en.Label, err)
			continue
		}
		st.Assume(c)
	}
	if ex.specMode == 0 {
		// vacuity guard: the assumed contract must not contradict what is known at the call site
		ex.covers = append(ex.covers, &ObRecord{Name: ex.fnPrefix + "#cover:after-call:" + fn.Name(), Kind: "cover", PC: st.PC(), Cond: True})
	}
	for _, m := range errs {
		ex.unsupp("contract %s: %s", ct.Func, m)
	}
	return []Result{{st: st, ret: ret}}
}

// fnWriteSet: what fn can write in the world of its context argument. Discovered once per function from a generic
// state (all paths feasible) and cached; functions taking callbacks are discovered at the call site with the actual
// closures. While another discovery is running, the set is merged into its recorders.
func (ex *Exec) fnWriteSet(fn *ssa.Function, args []Val, pre *State, ctx *CtxV) *WriteSet {
	hasCallback := false
	for _, p := range fn.Params {
		if _, ok := p.Type().Underlying().(*types.Signature); ok {
			hasCallback = true
		}
	}
	var ws *WriteSet
	if ct := ex.lookupContract(fn); ct != nil && ct.HasWrites {
		if cached, ok := ex.wsCache[fn]; ok {
			ws = cached
		} else {
			// declared (and proved) write set; a family may depend on the arguments (e.g. `writes fam(prefix)`),
			// in which case it is evaluated per call site and not cached
			ws = &WriteSet{fams: map[int]bool{}}
			params := map[string]TV{}
			for i, p := range fn.Params {
				if i < len(args) {
					params[p.Name()] = TV{args[i], p.Type()}
				}
			}
			constEnv := ex.envFor(fn, nil, nil, NewState(), nil)
			argEnv := ex.envFor(fn, params, ctx, pre, nil)
			cacheable := true
			for _, w := range ct.Writes {
				e, err := ParseExpr(w)
				if err != nil {
					ex.unsupp("writes clause of %s: %v", ct.Func, err)
					ws.all = true
					continue
				}
				evalFam := func(env *Env) (t *Term) {
					defer func() {
						if r := recover(); r != nil {
							t = nil
						}
					}()
					return env.term(e)
				}
				t := evalFam(constEnv)
				if t == nil || t.Op != "int" {
					cacheable = false
					t = evalFam(argEnv)
				}
				if t != nil && t.Op == "int" && t.Int.IsInt64() {
					ws.fams[int(t.Int.Int64())] = true
				} else {
					ex.warn("writes clause of %s: %s is not a constant family at this call site (everything havocked, the proved frame clause still applies)", ct.Func, w)
					ws.all = true
				}
			}
			ws.effects = ex.fnEffects(fn).world && ex.declaredEffects(fn)
			if cacheable {
				ex.wsCache[fn] = ws
			}
		}
	} else if cached, ok := ex.wsCache[fn]; ok && !hasCallback {
		ws = cached
	} else if hasCallback {
		rec := ex.discover(func() {
			st2 := pre.Clone()
			saveStack := ex.callStack
			ex.runFunc(fn, args, nil, st2, nil)
			ex.callStack = saveStack
		})
		ws = rec.byWorld[ctx.World]
		if rec.byWorld[-1] != nil {
			ws = rec.byWorld[-1]
		}
	} else {
		var gctx *CtxV
		var world int
		rec := ex.discover(func() {
			st2 := NewState()
			world = st2.NewWorld(World{S: Fresh("dS", SStore), X: Fresh("dX", SXState), E: Fresh("dE", elogDT.Sort)})
			var gargs []Val
			for _, p := range fn.Params {
				gargs = append(gargs, ex.symbolicParam(st2, p, world, &gctx))
			}
			saveStack, saveTop := ex.callStack, ex.topFn
			ex.callStack = nil
			ex.runFunc(fn, gargs, nil, st2, nil)
			ex.callStack, ex.topFn = saveStack, saveTop
		})
		ws = rec.byWorld[world]
		if rec.byWorld[-1] != nil {
			ws = rec.byWorld[-1]
		}
		if ws == nil {
			ws = &WriteSet{fams: map[int]bool{}}
		}
		ex.wsCache[fn] = ws
		if os.Getenv("ICSVC_DEBUG_WS") != "" {
			var fl []int
			for f := range ws.fams {
				fl = append(fl, f)
			}
			fmt.Fprintf(os.Stderr, "writeset %s: fams=%v all=%v effects=%v\n", fn.Name(), fl, ws.all, ws.effects)
		}
	}
	if ws == nil {
		ws = &WriteSet{fams: map[int]bool{}}
	}
	// an enclosing discovery learns the callee's writes
	if ctx != nil {
		for _, r := range ex.recorders {
			w := r.ws(ctx.World)
			for f := range ws.fams {
				w.fams[f] = true
			}
			w.all = w.all || ws.all
			w.effects = w.effects || ws.effects
		}
	}
	return ws
}

// declaredEffects: does the function (transitively, syntactically) call a dependency command?
func (ex *Exec) declaredEffects(fn *ssa.Function) bool {
	seen := map[*ssa.Function]bool{}
	var rec func(f *ssa.Function) bool
	rec = func(f *ssa.Function) bool {
		if seen[f] || f.Blocks == nil {
			return false
		}
		seen[f] = true
		for _, b := range f.Blocks {
			for _, in := range b.Instrs {
				c, ok := in.(ssa.CallInstruction)
				if !ok {
					continue
				}
				cc := c.Common()
				if cc.IsInvoke() {
					name := calleeName(cc)
					if isKeeperIfaceName(name) && isCommandName(cc.Method.Name()) {
						return true
					}
					continue
				}
				switch callee := cc.Value.(type) {
				case *ssa.Function:
					if rec(callee) {
						return true
					}
				case *ssa.MakeClosure:
					if rec(callee.Fn.(*ssa.Function)) {
						return true
					}
				case *ssa.Builtin:
				default:
					return true // unknown function value
				}
			}
		}
		for _, af := range f.AnonFuncs {
			if rec(af) {
				return true
			}
		}
		return false
	}
	return rec(fn)
}

// pureResult: the result of a function with a `pure` contract is an uninterpreted function of the store, the
// external state and the (term) arguments — the same symbol at call sites and in specifications.
func (ex *Exec) pureResult(fn *ssa.Function, args []Val, st *State, ctx *CtxV) Val {
	var ts []*Term
	if ctx != nil {
		w := st.worlds[ctx.World]
		ts = append(ts, w.S, w.X, ctx.Time, ctx.Height)
	}
	for i, a := range args {
		switch a.(type) {
		case *CtxV, *OpaqueV, *FuncV, *StoreV:
			continue
		case *IfaceV:
			if ex.ctxOf(a) != nil {
				continue
			}
		}
		ts = append(ts, ex.asTerm(st, a, fn.Params[i].Type()))
	}
	rs := ex.externalUF("fn_"+pkgTail(fn)+"_"+ex.contractKey(fn), fn.Signature, nil, ts)
	for i, r := range rs {
		tmp := NewState()
		ex.typeInvariant(tmp, r, fn.Signature.Results().At(i).Type(), 0)
		for _, c := range tmp.pc {
			st.AssumeDef(c)
		}
	}
	switch len(rs) {
	case 0:
		return nil
	case 1:
		return rs[0]
	}
	tv := &TupleV{}
	for _, r := range rs {
		tv.Elems = append(tv.Elems, r)
	}
	return tv
}

// ---------------------------------------------------------------- loop invariants

func (ex *Exec) invariantsFor(fr *Frame, lp *Loop) []Clause {
	ct := fr.contract
	if ct == nil {
		ct = ex.lookupContract(fr.fn)
	}
	if ct == nil {
		return nil
	}
	ls := ct.Loops[lp.ordinal]
	if ls == nil {
		return nil
	}
	return ls.Invariants
}

func (ex *Exec) rangeIndexOf(fr *Frame, lp *Loop) *ssa.Alloc {
	for _, in := range lp.header.Instrs {
		if s, ok := in.(*ssa.Store); ok {
			if al, ok := s.Addr.(*ssa.Alloc); ok && al.Comment == "rangeindex" {
				return al
			}
		}
	}
	return nil
}

func (ex *Exec) evalInvariant(fr *Frame, lp *Loop, iv Clause, st *State) *Term {
	var old *State
	var params map[string]TV
	var ctx *CtxV
	if fr.entry != nil {
		old = fr.entry.st
		params = fr.entry.params
		ctx = fr.entry.ctx
	}
	env := ex.envFor(fr.fn, params, ctx, st, old)
	env.fr = fr
	env.entry = fr.loopEntry[lp.header]
	env.prev = fr.loopPrev[lp.header]
	if al := ex.rangeIndexOf(fr, lp); al != nil {
		if p, ok := fr.env[al].(*PtrV); ok {
			if c, ok := st.heap[p.Obj.id].(*Term); ok {
				env = env.withVar("_i", TV{Add(c, IntLit(1)), nil})
			}
		}
	}
	ct := fr.contract
	if ct == nil {
		ct = ex.lookupContract(fr.fn)
	}
	var errs []string
	if ct != nil {
		env = ex.bindLets(env, ct.Lets, &errs)
		if ls := ct.Loops[lp.ordinal]; ls != nil && env.entry != nil {
			// loop lets are evaluated in the loop-entry state
			e2 := env.inState(env.entry)
			for _, l := range ls.Lets {
				func() {
					defer func() {
						if r := recover(); r != nil {
							if ee, ok := r.(evalError); ok {
								errs = append(errs, "loop let "+l.Name+": "+ee.msg)
								return
							}
							panic(r)
						}
					}()
					tv := e2.eval(l.Expr)
					env = env.withVar(l.Name, tv)
					e2 = e2.withVar(l.Name, tv)
				}()
			}
		}
	}
	c, err := env.EvalBool(iv.Expr)
	if err != nil {
		errs = append(errs, err.Error())
	}
	for _, m := range errs {
		ex.unsupp("invariant [%s] of loop %d in %s: %s", iv.Label, lp.ordinal, fr.fn.Name(), m)
	}
	if c == nil {
		// the clause cannot be evaluated on this code (e.g. it names a local that no longer exists):
		// as an assumption it says nothing, as an obligation it is not discharged
		ex.invUnbound = true
		return True
	}
	return c
}

// ---------------------------------------------------------------- verification of one function against its contract

type FuncReport struct {
	Name        string
	Obligations []*ObRecord
	Unsupported []string
	Warnings    map[string]int
	Paths       int
	Covers      []*ObRecord
}

func (ex *Exec) symbolicParam(st *State, p *ssa.Parameter, world int, ctx **CtxV) Val {
	t := p.Type()
	switch {
	case isCtxType(t):
		if *ctx == nil {
			tm := Var("now0", SInt)
			h := Var("height0", SInt)
			st.AssumeDef(Gt(tm, zeroTime))
			st.AssumeDef(Ge(h, IntLit(0)))
			*ctx = &CtxV{World: world, Time: tm, Height: h, Chain: Var("chainid0", SBytes)}
		}
		return *ctx
	case strings.HasSuffix(t.String(), "context.Context"):
		if *ctx == nil {
			tm := Var("now0", SInt)
			h := Var("height0", SInt)
			st.AssumeDef(Gt(tm, zeroTime))
			st.AssumeDef(Ge(h, IntLit(0)))
			*ctx = &CtxV{World: world, Time: tm, Height: h, Chain: Var("chainid0", SBytes)}
		}
		return &IfaceV{Dyn: nil, V: *ctx}
	}
	if sl, ok := t.Underlying().(*types.Slice); ok && !isByteSlice(t) {
		es := sortOf(sl.Elem())
		arr := Var("in_"+p.Name()+"_arr", ArraySort(SInt, es))
		n := Var("in_"+p.Name()+"_len", SInt)
		tmp := NewState()
		nl := Var("in_"+p.Name()+"_isnil", SBool)
		ex.typeInvariant(tmp, MkSlNil(es, arr, n, nl), t, 0)
		for _, c := range tmp.pc {
			st.AssumeDef(c)
		}
		o := st.NewObj("param:"+p.Name(), nil, arr)
		return &SliceV{Obj: o, Off: IntLit(0), Len: n, Elem: sl.Elem(), Nil: nl}
	}
	if _, ok := t.Underlying().(*types.Signature); ok {
		// a function-typed parameter: an arbitrary pure, deterministic function of its arguments
		return &FuncV{Builtin: "param:" + p.Name(), Data: []Val{&OpaqueV{types.TypeString(t, nil)}}, Sig: t.Underlying().(*types.Signature)}
	}
	v := Var("in_"+p.Name(), sortOf(t))
	tmp := NewState()
	ex.typeInvariant(tmp, v, t, 0)
	for _, c := range tmp.pc {
		st.AssumeDef(c)
	}
	return v
}

func (ex *Exec) verifyFunction(fn *ssa.Function, ct *Contract, prefix string) *FuncReport {
	ex.topFn = fn
	ex.fnPrefix = prefix
	ex.obs = nil
	ex.unsupported = nil
	ex.warnings = map[string]int{}
	ex.nstates = 0
	ex.covers = nil
	st := NewState()
	world := st.NewWorld(World{S: Var("S0", SStore), X: Var("X0", SXState), E: Var("E0", elogDT.Sort)})
	var ctx *CtxV
	var args []Val
	for _, p := range fn.Params {
		args = append(args, ex.symbolicParam(st, p, world, &ctx))
	}
	params, _ := ex.paramTVs(fn, args)
	var errs []string
	env := ex.envFor(fn, params, ctx, st, nil)
	var preErrs []string // lets that only make sense in the post-state may fail here
	env = ex.bindLets(env, ct.Lets, &preErrs)
	for _, rq := range ct.Requires {
		c, err := env.EvalBool(rq.Expr)
		if err != nil {
			ex.unsupp("requires[%s]: %v", rq.Label, err)
			continue
		}
		st.Assume(c)
	}
	// vacuity guard: the precondition must be satisfiable
	ex.covers = append(ex.covers, &ObRecord{Name: prefix + "#cover:requires", Kind: "cover", PC: st.PC(), Cond: True})
	entry := &EntrySnapshot{st: st.Clone(), params: params, ctx: ctx}
	fr := ex.newFrame(fn)
	fr.top = true
	fr.contract = ct
	fr.entry = entry
	var rs []Result
	func() {
		defer func() {
			if r := recover(); r != nil {
				if ee, ok := r.(evalError); ok {
					ex.unsupp("evaluation error: %s", ee.msg)
					return
				}
				ex.unsupp("engine panic: %v", r)
				if ex.trace {
					panic(r)
				}
			}
		}()
		rs = ex.runFunc(fn, args, nil, st, fr)
	}()
	rep := &FuncReport{Name: prefix, Paths: len(rs)}
	anyRet := False
	for _, r := range rs {
		post := ex.envFor(fn, params, ctx, r.st, entry.st)
		post.fr = r.fr // final values of locals may be mentioned by ensures clauses
		post = resultVars(post, fn.Signature, r.ret)
		post = ex.bindLets(post, ct.Lets, &errs)
		anyRet = Or(anyRet, r.st.PC())
		for _, en := range ct.Ensures {
			c, err := post.EvalBool(en.Expr)
			if err != nil {
				// the clause cannot be evaluated on this code (a name it mentions no longer exists, or a call it
				// refers to is not made on this path): reported, and the obligation counts as not discharged
				ex.unsupp("ensures[%s]: %v", en.Label, err)
				c = False
			}
			name := prefix + "#ensures"
			if en.Label != "" {
				name += ":" + en.Label
			}
			kind := "ensures"
			if en.Stretch {
				kind = "stretch"
			}
			ex.oblige(r.st, kind, name, c, fn.Pos())
		}
	}
	if len(rs) > 0 {
		ex.covers = append(ex.covers, &ObRecord{Name: prefix + "#cover:returns", Kind: "cover", PC: anyRet, Cond: True})
	} else if len(ex.unsupported) == 0 {
		ex.unsupp("vacuity: no returning path was explored for %s", prefix)
	}
	for _, m := range errs {
		ex.unsupp("%s", m)
	}
	if ct != nil {
		for callee, pcs := range ct.Precalls {
			for _, pc := range pcs {
				if !ex.precallSeen[prefix+"#"+callee+"."+pc.Label] {
					ex.unsupp("vacuity: precall %s [%s] of %s was never instantiated (no direct call of %s was explored)", callee, pc.Label, prefix, callee)
				}
			}
		}
		for ord, ls := range ct.Loops {
			if len(ls.Steps) > 0 {
				found := false
				for _, o := range ex.obs {
					if strings.HasPrefix(o.Name, fmt.Sprintf("%s#loop%d.step", prefix, ord)) {
						found = true
					}
				}
				if !found {
					ex.unsupp("vacuity: step clauses of loop %d of %s generated no obligation (no back edge explored)", ord, prefix)
				}
			}
		}
	}
	rep.Obligations = ex.obs
	rep.Unsupported = ex.unsupported
	rep.Warnings = ex.warnings
	rep.Covers = ex.covers
	return rep
}
