package main

// Models of functions outside the verified packages (SDK context, KV store, codecs, math, sort, errors, keepers).
// Everything here is an ASSUMED contract (trusted base T5-T9 in DESIGN.md); unknown functions default to
// uninterpreted functions of their arguments (pure) and are reported in the evidence.

import (
	"fmt"
	"go/token"
	"go/types"
	"strings"

	"golang.org/x/tools/go/ssa"
)

func shortCallee(name string) string {
	// "(github.com/cosmos/cosmos-sdk/types.Context).KVStore" -> "(types.Context).KVStore"
	var sb strings.Builder
	i := 0
	for i < len(name) {
		j := i
		for j < len(name) && !strings.ContainsRune("()*[] ,", rune(name[j])) {
			j++
		}
		w := name[i:j]
		if k := strings.LastIndex(w, "/"); k >= 0 {
			w = w[k+1:]
		}
		sb.WriteString(w)
		if j < len(name) {
			sb.WriteByte(name[j])
		}
		i = j + 1
	}
	return sb.String()
}

func (ex *Exec) ctxOf(v Val) *CtxV {
	switch x := v.(type) {
	case *CtxV:
		return x
	case *IfaceV:
		return ex.ctxOf(x.V)
	case *PtrV:
		return nil
	}
	return nil
}

func (ex *Exec) findCtx(recv Val, args []Val) *CtxV {
	if c := ex.ctxOf(recv); c != nil {
		return c
	}
	for _, a := range args {
		if c := ex.ctxOf(a); c != nil {
			return c
		}
	}
	return nil
}

func (ex *Exec) callExternal(fr *Frame, name string, sig *types.Signature, recv Val, args []Val, st *State, call *ssa.Call) []Result {
	one := func(v Val) []Result { return []Result{{st: st, ret: v}} }
	short := shortCallee(name)
	method := short
	if j := strings.LastIndex(short, "."); j >= 0 {
		method = short[j+1:]
	}
	posOf := func() (p int) { return 0 }
	_ = posOf
	// ---------- opaque receivers: loggers, event managers, telemetry
	if ov, ok := recv.(*OpaqueV); ok {
		switch ov.What {
		case "logger", "eventmanager":
			if sig.Results().Len() == 0 {
				return one(nil)
			}
			if sig.Results().Len() == 1 {
				rt := sig.Results().At(0).Type()
				if sortOf(rt) == SIface || strings.Contains(rt.String(), "Logger") {
					return one(ov)
				}
				if sortOf(rt) == SErr {
					return one(ErrNil)
				}
			}
		}
	}
	switch {
	// ---------- sdk.Context
	case strings.HasSuffix(short, "(types.Context).KVStore"):
		c := ex.ctxOf(recv)
		return one(&StoreV{World: c.World})
	case strings.HasSuffix(short, "(types.Context).BlockTime"):
		return one(ex.ctxOf(recv).Time)
	case strings.HasSuffix(short, "(types.Context).BlockHeight"):
		return one(ex.ctxOf(recv).Height)
	case strings.HasSuffix(short, "(types.Context).ChainID"):
		return one(ex.ctxOf(recv).Chain)
	case strings.HasSuffix(short, "(types.Context).Logger"):
		return one(&OpaqueV{"logger"})
	case strings.HasSuffix(short, "(types.Context).EventManager"):
		return one(&OpaqueV{"eventmanager"})
	case strings.HasSuffix(short, "(types.Context).CacheContext"):
		c := ex.ctxOf(recv)
		w := *st.worlds[c.World]
		child := &CtxV{World: st.NewWorld(w), Time: c.Time, Height: c.Height, Chain: c.Chain}
		return one(&TupleV{Elems: []Val{child, &FuncV{Builtin: "cachewrite", Data: []Val{child, c}}}})
	case strings.HasSuffix(short, "(types.Context).WithBlockTime"):
		c := *ex.ctxOf(recv)
		c.Time = args[0].(*Term)
		return one(&c)
	case strings.HasSuffix(short, "(types.Context).WithBlockHeight"):
		c := *ex.ctxOf(recv)
		c.Height = args[0].(*Term)
		return one(&c)
	case strings.HasSuffix(short, "(types.Context).WithChainID"):
		c := *ex.ctxOf(recv)
		c.Chain = ex.asBytes(st, args[0])
		return one(&c)
	case strings.Contains(short, "(types.Context).With"):
		return one(recv)
	case strings.HasSuffix(short, "(types.Context).BlockHeader"):
		c := ex.ctxOf(recv)
		rt := sig.Results().At(0).Type()
		h := Det("header", sortOf(rt), c.Time, c.Height, c.Chain)
		if fi, _, ok := structFieldIndex(rt, "Time"); ok {
			st.AssumeDef(Eq(Sel(h.Sort.DT, 0, fi, h), c.Time))
		}
		if fi, _, ok := structFieldIndex(rt, "Height"); ok {
			st.AssumeDef(Eq(Sel(h.Sort.DT, 0, fi, h), c.Height))
		}
		if fi, _, ok := structFieldIndex(rt, "ChainID"); ok {
			st.AssumeDef(Eq(Sel(h.Sort.DT, 0, fi, h), c.Chain))
		}
		return one(h)
	case short == "types.UnwrapSDKContext":
		if c := ex.ctxOf(args[0]); c != nil {
			return one(c)
		}
		ex.unsupp("UnwrapSDKContext of unknown context in %s", ex.fnPrefix)
		return one(&OpaqueV{"ctx"})
	case short == "types.WrapSDKContext":
		return one(&IfaceV{Dyn: nil, V: args[0]})
	// ---------- KV store
	case strings.HasSuffix(short, "KVStore).Get") || strings.HasSuffix(short, "(prefix.Store).Get"):
		s := recv.(*StoreV)
		k := ex.storeKey(st, s, args[0])
		return one(Select(st.worlds[s.World].S, k))
	case strings.HasSuffix(short, "KVStore).Has") || strings.HasSuffix(short, "(prefix.Store).Has"):
		s := recv.(*StoreV)
		k := ex.storeKey(st, s, args[0])
		return one(Neq(Select(st.worlds[s.World].S, k), BNil))
	case strings.HasSuffix(short, "KVStore).Set") || strings.HasSuffix(short, "(prefix.Store).Set"):
		s := recv.(*StoreV)
		k := ex.storeKey(st, s, args[0])
		v := ex.asBytes(st, args[1])
		ex.nopanic(st, "store-set-nil", Neq(v, BNil), posOfCall(call))
		w := st.worlds[s.World]
		w.S = Store(w.S, k, v)
		ex.recordWrite(s.World, k)
		return one(nil)
	case strings.HasSuffix(short, "KVStore).Delete") || strings.HasSuffix(short, "(prefix.Store).Delete"):
		s := recv.(*StoreV)
		k := ex.storeKey(st, s, args[0])
		w := st.worlds[s.World]
		w.S = Store(w.S, k, BNil)
		ex.recordWrite(s.World, k)
		return one(nil)
	case short == "types.KVStorePrefixIterator":
		s := args[0].(*StoreV)
		p := ex.storeKey(st, s, args[1])
		return one(ex.newIterator(st, s, p, nil, nil, false))
	case short == "types.KVStoreReversePrefixIterator":
		s := args[0].(*StoreV)
		p := ex.storeKey(st, s, args[1])
		return one(ex.newIterator(st, s, p, nil, nil, true))
	case strings.HasSuffix(short, "KVStore).Iterator"), strings.HasSuffix(short, "KVStore).ReverseIterator"):
		s := recv.(*StoreV)
		var lo, hi *Term
		if !isNilArg(args[0]) {
			lo = ex.storeKey(st, s, args[0])
		}
		if !isNilArg(args[1]) {
			hi = ex.storeKey(st, s, args[1])
		}
		return one(ex.newIterator(st, s, nil, lo, hi, strings.HasSuffix(short, "ReverseIterator")))
	case short == "types.InclusiveEndBytes":
		return one(Cat(ex.asBytes(st, args[0]), Lit("\x00")))
	case short == "types.PrefixEndBytes":
		DeclareUF("prefix_end", []*Sort{SBytes}, SBytes)
		return one(App("prefix_end", ex.asBytes(st, args[0])))
	case short == "prefix.NewStore":
		s := args[0].(*StoreV)
		p := ex.asBytes(st, args[1])
		if s.Prefix != nil {
			p = Cat(s.Prefix, p)
		}
		return one(&StoreV{World: s.World, Prefix: p})
	case strings.HasSuffix(short, "Iterator).Valid"):
		it := recv.(*IterV)
		i := ex.content(st, it.Obj).(*Term)
		return one(Lt(i, it.It.N))
	case strings.HasSuffix(short, "Iterator).Next"):
		it := recv.(*IterV)
		i := ex.content(st, it.Obj).(*Term)
		ex.nopanic(st, "iter-next", Lt(i, it.It.N), posOfCall(call))
		st.heap[it.Obj.id] = Add(i, IntLit(1))
		return one(nil)
	case strings.HasSuffix(short, "Iterator).Key"):
		it := recv.(*IterV)
		i := ex.content(st, it.Obj).(*Term)
		ex.nopanic(st, "iter-key", Lt(i, it.It.N), posOfCall(call))
		return one(App(it.It.KeyAt, i))
	case strings.HasSuffix(short, "Iterator).Value"):
		it := recv.(*IterV)
		i := ex.content(st, it.Obj).(*Term)
		ex.nopanic(st, "iter-value", Lt(i, it.It.N), posOfCall(call))
		return one(Select(it.It.Store, App(it.It.KeyAt, i)))
	case strings.HasSuffix(short, "Iterator).Close"):
		return one(ErrNil)
	// ---------- byte codecs
	case short == "types.Uint64ToBigEndian":
		return one(BE8(args[0].(*Term)))
	case short == "types.BigEndianToUint64":
		b := ex.asBytes(st, args[0])
		// sdk.BigEndianToUint64 returns 0 for empty input
		return one(Ite(Eq(BLen(b), IntLit(0)), IntLit(0), DecBE8(b)))
	case strings.HasSuffix(short, "(binary.bigEndian).Uint64"):
		b := ex.asBytes(st, args[0])
		ex.nopanic(st, "be-len", Ge(BLen(b), IntLit(8)), posOfCall(call))
		return one(DecBE8(b))
	case strings.HasSuffix(short, "(binary.bigEndian).Uint32"):
		b := ex.asBytes(st, args[0])
		ex.nopanic(st, "be-len", Ge(BLen(b), IntLit(4)), posOfCall(call))
		return one(DecBE4(b))
	case strings.HasSuffix(short, "(binary.bigEndian).PutUint64"), strings.HasSuffix(short, "(binary.bigEndian).PutUint32"):
		bs, ok := args[0].(*ByteSlV)
		if !ok {
			ex.unsupp("PutUint on non-local byte slice in %s", ex.fnPrefix)
			return one(nil)
		}
		old := ex.content(st, bs.Obj).(*Term)
		w := int64(8)
		enc := BE8(args[1].(*Term))
		if strings.HasSuffix(short, "32") {
			w = 4
			enc = BE4(args[1].(*Term))
		}
		ex.nopanic(st, "be-len", Ge(BLen(old), IntLit(w)), posOfCall(call))
		st.heap[bs.Obj.id] = Cat(enc, bslice(old, IntLit(w), BLen(old)))
		return one(nil)
	case short == "types.FormatTimeBytes":
		return one(TM(args[0].(*Term)))
	case short == "types.ParseTimeBytes":
		b := ex.asBytes(st, args[0])
		okk := App("ok_tm", b)
		if b.Op == "tm" {
			okk = True
		}
		e := Det("err_parsetime", SErr, b)
		st.AssumeDef(Eq(Eq(e, ErrNil), okk))
		return one(&TupleV{Elems: []Val{DecTM(b), e}})
	case short == "bytes.Equal":
		return one(Eq(ex.asBytes(st, args[0]), ex.asBytes(st, args[1])))
	case short == "bytes.HasPrefix":
		return one(BPre(ex.asBytes(st, args[1]), ex.asBytes(st, args[0])))
	case short == "strings.HasPrefix":
		return one(BPre(ex.asBytes(st, args[1]), ex.asBytes(st, args[0])))
	// ---------- protobuf / amino codecs
	case method == "MustMarshal" || method == "Marshal" || method == "MustMarshalJSON" || method == "MarshalJSON" || method == "MarshalInterface" || method == "MarshalBinary":
		return ex.marshal(st, short, method, sig, recv, args, call)
	case method == "MustUnmarshal" || method == "Unmarshal" || method == "MustUnmarshalJSON" || method == "UnmarshalJSON" || method == "UnmarshalInterface" || method == "UnmarshalBinary":
		return ex.unmarshal(st, short, method, sig, recv, args, call)
	// ---------- errors & formatting
	case short == "fmt.Errorf" || short == "errors.New" || short == "errors.New" || strings.HasSuffix(short, "errors.Register") || short == "errors.Join":
		return one(ex.freshNonNilErr(st, "new"))
	case short == "errors.Wrap" || short == "errors.Wrapf" || strings.HasSuffix(short, "(*errors.Error).Wrap") || strings.HasSuffix(short, "(*errors.Error).Wrapf"):
		var base *Term
		if recv != nil {
			base = ex.asTerm(st, recv, types.Universe.Lookup("error").Type())
			// (*Error).Wrap on a registered error: never nil
			e := ex.wrapErr(st, ex.freshNonNilErrBase(st, recv))
			return one(e)
		}
		base = ex.asTerm(st, args[0], types.Universe.Lookup("error").Type())
		return one(ex.wrapErr(st, base))
	case short == "errors.Is":
		DeclareUF("err_root", []*Sort{SErr}, SErr)
		toErr := func(v Val) *Term {
			if t, ok := v.(*Term); ok && t.Sort == SErr {
				return t
			}
			if t, ok := v.(*Term); ok {
				return ex.errOf(st, t, "isarg")
			}
			return ex.asTerm(st, v, types.Universe.Lookup("error").Type())
		}
		a, b := toErr(args[0]), toErr(args[1])
		return one(And(Neq(a, ErrNil), Eq(App("err_root", a), App("err_root", b))))
	case strings.HasPrefix(short, "fmt.Sprint"):
		// a deterministic function of the format and the arguments (when their number is known)
		if sl, ok := args[len(args)-1].(*SliceV); ok && sl.Len.Op == "int" && sl.Len.Int.Int64() <= 6 {
			var ts []*Term
			var ss []*Sort
			if short == "fmt.Sprintf" {
				ts = append(ts, ex.asBytes(st, args[0]))
				ss = append(ss, SBytes)
			}
			arr := ex.content(st, sl.Obj).(*Term)
			for i := int64(0); i < sl.Len.Int.Int64(); i++ {
				ts = append(ts, Select(arr, Add(sl.Off, IntLit(i))))
				ss = append(ss, arr.Sort.Elem)
			}
			n := "sprint_" + sortsKey(ss)
			DeclareUF(n, ss, SBytes)
			return one(App(n, ts...))
		}
		return one(Fresh("fmtstr", SBytes))
	case strings.HasSuffix(short, ".Error") && sig.Params().Len() == 0 && sig.Results().Len() == 1 && sortOf(sig.Results().At(0).Type()) == SBytes:
		DeclareUF("errstr", []*Sort{SErr}, SBytes)
		if rt, ok := recv.(*Term); ok && rt.Sort == SErr {
			return one(App("errstr", rt))
		}
		return one(Fresh("errstr", SBytes))
	case strings.HasSuffix(short, ".String") && sig.Params().Len() == 0 && recvIsLogOnly(recv):
		return one(Fresh("str", SBytes))
	// ---------- sort
	case short == "sort.Slice" || short == "sort.SliceStable":
		return ex.sortSlice(fr, st, args, call, short == "sort.SliceStable")
	// ---------- address / byte-string wrappers: Bytes() is the identity on the underlying bytes
	case method == "Bytes" && sig.Params().Len() == 0 && sig.Results().Len() == 1 && isByteSlice(sig.Results().At(0).Type()) && recv != nil:
		if t, ok := recv.(*Term); ok && t.Sort == SBytes {
			return one(t)
		}
		if b, ok := recv.(*ByteSlV); ok {
			return one(ex.content(st, b.Obj))
		}
	// ---------- telemetry and similar no-ops
	case strings.HasPrefix(short, "telemetry.") || strings.HasPrefix(short, "metrics."):
		return one(ex.freshResults(st, sig))
	}
	if r, ok := ex.mathBuiltin(st, short, method, sig, recv, args, call); ok {
		return r
	}
	if r, ok := ex.keeperCall(st, name, short, method, sig, recv, args, call); ok {
		return r
	}
	// ---------- default: pure uninterpreted function of the arguments
	return one(ex.defaultExternal(st, name, sig, recv, args))
}

func recvIsLogOnly(v Val) bool { return false }

func posOfCall(call *ssa.Call) token.Pos {
	if call == nil {
		return token.NoPos
	}
	return call.Pos()
}

func isNilArg(v Val) bool {
	if v == nil {
		return true
	}
	if t, ok := v.(*Term); ok && t == BNil {
		return true
	}
	return false
}

func (ex *Exec) intRangeDef(st *State, t *Term, gt types.Type) {
	s2 := NewState()
	ex.intRangeAssume(s2, t, gt)
	for _, c := range s2.pc {
		st.AssumeDef(c)
	}
}

func (ex *Exec) freshNonNilErrBase(st *State, recv Val) *Term {
	if t, ok := recv.(*Term); ok && t.Sort == SErr {
		return t
	}
	if p, ok := recv.(*PtrV); ok {
		// pointer to a registered *errors.Error global: identified by the global's name
		e := Var("errvar_"+strings.TrimPrefix(p.Obj.name, "global:"), SErr)
		st.AssumeDef(Neq(e, ErrNil))
		return e
	}
	return ex.freshNonNilErr(st, "base")
}

var siteIds = map[string]int{}

func (ex *Exec) wrapErr(st *State, base *Term) *Term {
	DeclareUF("err_root", []*Sort{SErr}, SErr)
	DeclareUF("err_wrap", []*Sort{SInt, SErr}, SErr)
	id, ok := siteIds[ex.site]
	if !ok {
		id = len(siteIds) + 1
		siteIds[ex.site] = id
	}
	e := App("err_wrap", IntLit(int64(id)), base)
	st.AssumeDef(Eq(Eq(e, ErrNil), Eq(base, ErrNil)))
	st.AssumeDef(Eq(App("err_root", e), App("err_root", base)))
	return e
}

func (ex *Exec) storeKey(st *State, s *StoreV, k Val) *Term {
	kt := ex.asBytes(st, k)
	if s.Prefix != nil {
		return Cat(s.Prefix, kt)
	}
	return kt
}

var iterCounter int

// newIterator: the keys visited are exactly the present keys under the prefix / in the range, each once,
// in ascending (or descending) key order (order facts are exposed through key_lt only).
func (ex *Exec) newIterator(st *State, s *StoreV, prefix, lo, hi *Term, reverse bool) Val {
	iterCounter++
	S := st.worlds[s.World].S
	var rv *Term
	if reverse {
		rv = True
	}
	n := Det("itn", SInt, S, prefix, lo, hi, rv)
	keyAt := DetName("itkey", S, prefix, lo, hi, rv)
	idxOf := DetName("itidx", S, prefix, lo, hi, rv)
	DeclareUF(keyAt, []*Sort{SInt}, SBytes)
	DeclareUF(idxOf, []*Sort{SBytes}, SInt)
	DeclareUF("key_lt", []*Sort{SBytes, SBytes}, SBool)
	i := BVar("i!it", SInt)
	j := BVar("j!it", SInt)
	k := BVar("k!it", SBytes)
	inRange := func(x *Term) *Term {
		var cs []*Term
		if prefix != nil {
			cs = append(cs, BPre(prefix, x))
		}
		if lo != nil {
			cs = append(cs, Not(App("key_lt", x, lo)))
		}
		if hi != nil {
			cs = append(cs, App("key_lt", x, hi))
		}
		return And(cs...)
	}
	st.AssumeDef(Ge(n, IntLit(0)))
	ki := App(keyAt, i)
	st.AssumeDef(Forall([]*Term{i}, Implies(And(Le(IntLit(0), i), Lt(i, n)),
		And(inRange(ki), Neq(Select(S, ki), BNil), Eq(App(idxOf, ki), i), Ge(App("blen", ki), IntLit(1)))), []*Term{ki}))
	st.AssumeDef(Forall([]*Term{k}, Implies(And(inRange(k), Neq(Select(S, k), BNil)),
		And(Le(IntLit(0), App(idxOf, k)), Lt(App(idxOf, k), n), Eq(App(keyAt, App(idxOf, k)), k))), []*Term{App(idxOf, k)}, []*Term{Select(S, k)}))
	// order
	kj := App(keyAt, j)
	ord := App("key_lt", ki, kj)
	if reverse {
		ord = App("key_lt", kj, ki)
	}
	st.AssumeDef(Forall([]*Term{i, j}, Implies(And(Le(IntLit(0), i), Lt(i, j), Lt(j, n)), ord), []*Term{ki, kj}))
	if prefix != nil {
		ex.iterPrefix[keyAt] = prefix
	} else if lo != nil && hi != nil && Fam(lo).Op == "int" && Fam(lo) == Fam(hi) {
		// a range inside one family (lexicographic order): every key in it has that first byte
		ex.iterPrefix[keyAt] = lo
	}
	o := st.NewObj("iter", nil, IntLit(0))
	return &IterV{Obj: o, It: &IterInfo{Store: S, N: n, KeyAt: keyAt, IdxOf: idxOf, Prefix: prefix, Start: lo, End: hi, Reverse: reverse}}
}

// ---------------------------------------------------------------- codecs

func pbTag(t types.Type, codec string) string {
	t = derefType(t)
	// qualify by the last two elements of the package path: several modules have a types.GenesisState, types.Params, ...
	s := types.TypeString(t, func(p *types.Package) string {
		parts := strings.Split(p.Path(), "/")
		if len(parts) > 2 {
			parts = parts[len(parts)-2:]
		}
		return strings.Join(parts, "_")
	})
	return codec + "_" + strings.NewReplacer("*", "P", ".", "_", "[", "_", "]", "_", " ", "", "/", "_", "{", "", "}", "", "-", "_").Replace(s)
}

func (ex *Exec) marshal(st *State, short, method string, sig *types.Signature, recv Val, args []Val, call *ssa.Call) []Result {
	one := func(v Val) []Result { return []Result{{st: st, ret: v}} }
	// value being encoded: receiver (x.Marshal()) or first argument (cdc.MustMarshal(&x))
	var v Val
	var vt types.Type
	isCodec := strings.Contains(short, "Codec)") || strings.Contains(short, "codec.") || strings.Contains(short, "Marshaler)")
	if isCodec && len(args) >= 1 {
		v = args[0]
		if call != nil {
			vt = call.Common().Args[0].Type()
			if mi, ok := call.Common().Args[0].(*ssa.MakeInterface); ok {
				vt = mi.X.Type()
			}
		}
	} else {
		v = recv
		if call != nil && !call.Common().IsInvoke() {
			if fn, ok := call.Common().Value.(*ssa.Function); ok && fn.Signature.Recv() != nil {
				vt = fn.Signature.Recv().Type()
			}
		}
		if call != nil && call.Common().IsInvoke() {
			vt = call.Common().Value.Type()
		}
	}
	if iv, ok := v.(*IfaceV); ok {
		v = iv.V
		if iv.Dyn != nil {
			vt = iv.Dyn
		}
	}
	if vt == nil {
		ex.unsupp("marshal of unknown type in %s", ex.fnPrefix)
		return one(ex.freshResults(st, sig))
	}
	var val *Term
	switch x := v.(type) {
	case *PtrV:
		c := ex.load(st, x)
		val = ex.asTerm(st, c, x.Obj.typ)
		vt = derefType(vt)
	case *Term:
		if isOptSort(x.Sort) {
			if o, ok := st.optObj[x.id]; ok {
				val = ex.content(st, o).(*Term)
			} else {
				val = OptVal(x)
			}
			vt = derefType(vt)
		} else {
			val = x
		}
	default:
		val = ex.asTerm(st, v, vt)
	}
	codec := "pb"
	if strings.Contains(method, "JSON") {
		codec = "json"
	}
	if strings.Contains(method, "Binary") {
		codec = "bin"
	}
	enc := PBEnc(pbTag(vt, codec), val)
	if sig.Results().Len() == 2 {
		// (bytes, error): marshalling of a well-typed value does not fail (T5)
		return one(&TupleV{Elems: []Val{enc, ErrNil}})
	}
	return one(enc)
}

func (ex *Exec) unmarshal(st *State, short, method string, sig *types.Signature, recv Val, args []Val, call *ssa.Call) []Result {
	one := func(v Val) []Result { return []Result{{st: st, ret: v}} }
	isCodec := strings.Contains(short, "Codec)") || strings.Contains(short, "codec.") || strings.Contains(short, "Marshaler)")
	var target Val
	var bz *Term
	var tt types.Type
	if isCodec && len(args) >= 2 {
		bz = ex.asBytes(st, args[0])
		target = args[1]
		if call != nil {
			tt = call.Common().Args[1].Type()
			if mi, ok := call.Common().Args[1].(*ssa.MakeInterface); ok {
				tt = mi.X.Type()
			}
		}
	} else if len(args) >= 1 {
		bz = ex.asBytes(st, args[0])
		target = recv
		if call != nil && !call.Common().IsInvoke() {
			if fn, ok := call.Common().Value.(*ssa.Function); ok && fn.Signature.Recv() != nil {
				tt = fn.Signature.Recv().Type()
			}
		}
	}
	if iv, ok := target.(*IfaceV); ok {
		target = iv.V
		if iv.Dyn != nil {
			tt = iv.Dyn
		}
	}
	p, ok := target.(*PtrV)
	if !ok || tt == nil {
		ex.unsupp("unmarshal into non-local target in %s (%s)", ex.fnPrefix, short)
		return one(ex.freshResults(st, sig))
	}
	et := derefType(tt)
	codec := "pb"
	if strings.Contains(method, "JSON") {
		codec = "json"
	}
	if strings.Contains(method, "Binary") {
		codec = "bin"
	}
	tag := pbTag(et, codec)
	s := sortOf(et)
	okk := PBOk(tag, s, bz)
	dec := PBDec(tag, s, bz)
	if codec == "pb" && bz.Op != "pb" {
		// proto3: empty / nil input decodes to the zero message
		isNil := Eq(bz, BNil)
		okk = Or(isNil, okk)
		dec = Ite(isNil, zeroTerm(et), dec)
	}
	if !dec.hasBV {
		// decoded values are Go values: representation invariants hold
		tmp := NewState()
		ex.typeInvariant(tmp, dec, et, 0)
		for _, c := range tmp.pc {
			st.AssumeDef(c)
		}
	}
	if fromStore(bz) {
		// W (DESIGN 2.3): values read from the store decode with the codec of their reader; the codec-consistency
		// sweep (C13) checks that every family is written with the codec it is read with.
		st.AssumeDef(okk)
		ex.assumed["W: stored values decode with their reader's codec (codec-consistency sweep)"]++
	}
	if strings.HasPrefix(method, "Must") {
		pos := posOfCall(call)
		ex.nopanic(st, "unmarshal", okk, pos)
		ex.store(st, p, dec, et)
		return one(nil)
	}
	// on failure the target content is unspecified
	DeclareUF("pbjunk_"+tag, []*Sort{SBytes}, s)
	DeclareUF("pberr_"+tag, []*Sort{SBytes}, SErr)
	junk := App("pbjunk_"+tag, bz)
	ex.store(st, p, Ite(okk, dec, junk), et)
	e := App("pberr_"+tag, bz)
	st.AssumeDef(Eq(Eq(e, ErrNil), okk))
	return one(e)
}

// fromStore: the bytes are (an ite over) direct reads of a store variable.
func fromStore(b *Term) bool {
	switch b.Op {
	case "select":
		return b.Args[0].Sort == SStore
	case "ite":
		return fromStore(b.Args[1]) && fromStore(b.Args[2])
	}
	return b == BNil
}

// ---------------------------------------------------------------- sort.Slice

func (ex *Exec) sortSlice(fr *Frame, st *State, args []Val, call *ssa.Call, stable bool) []Result {
	one := func(v Val) []Result { return []Result{{st: st, ret: v}} }
	iv, ok := args[0].(*IfaceV)
	if !ok {
		ex.unsupp("sort.Slice on unknown value")
		return one(nil)
	}
	sl, ok := iv.V.(*SliceV)
	var termVar *Obj // the local variable holding a term-valued slice (sorted in place through it)
	var termVal *Term
	if !ok {
		if t, isT := iv.V.(*Term); isT && isSliceSort(t.Sort) {
			// a slice value built by append: find the variable it was loaded from (sort.Slice(v, ...) with v a local)
			if call != nil && len(call.Call.Args) > 0 {
				var x ssa.Value = call.Call.Args[0]
				if mi, isMI := x.(*ssa.MakeInterface); isMI {
					x = mi.X
				}
				if u, isU := x.(*ssa.UnOp); isU && u.Op == token.MUL {
					if p, isP := ex.val(fr, u.X, st).(*PtrV); isP && len(p.Path) == 0 {
						termVar, termVal = p.Obj, t
					}
				}
			}
			if termVar == nil {
				var stk []string
				for _, f := range ex.callStack {
					stk = append(stk, f.Name())
				}
				ex.unsupp("sort.Slice on a slice term (no backing object) in %s via %v (spec=%d rec=%d)", ex.fnPrefix, stk, ex.specMode, len(ex.recorders))
				return one(nil)
			}
		} else {
			return one(nil)
		}
	}
	less, ok := args[1].(*FuncV)
	if !ok || less.Fn == nil {
		ex.unsupp("sort.Slice with unknown comparator")
		return one(nil)
	}
	var oldArr, n, off *Term
	if termVar != nil {
		oldArr, n, off = SlArr(termVal), SlLen(termVal), IntLit(0)
	} else {
		oldArr, n, off = ex.content(st, sl.Obj).(*Term), sl.Len, sl.Off
	}
	lessId := Var("fn:"+less.Fn.String(), SInt)
	newArr := Det("sorted", oldArr.Sort, oldArr, off, n, lessId)
	// permutation: bijection pi on [0,n)
	pi := DetName("perm", oldArr, off, n, lessId)
	pinv := DetName("perminv", oldArr, off, n, lessId)
	DeclareUF(pi, []*Sort{SInt}, SInt)
	DeclareUF(pinv, []*Sort{SInt}, SInt)
	i := BVar("i!so", SInt)
	j := BVar("j!so", SInt)
	inR := func(x *Term) *Term { return And(Le(IntLit(0), x), Lt(x, n)) }
	st.AssumeDef(Forall([]*Term{i}, Implies(inR(i), And(inR(App(pi, i)), Eq(App(pinv, App(pi, i)), i),
		Eq(Select(newArr, Add(off, i)), Select(oldArr, Add(off, App(pi, i)))))), []*Term{App(pi, i)}, []*Term{Select(newArr, Add(off, i))}))
	st.AssumeDef(Forall([]*Term{i}, Implies(inR(i), And(inR(App(pinv, i)), Eq(App(pi, App(pinv, i)), i))), []*Term{App(pinv, i)}))
	// outside the sorted window nothing changes
	st.AssumeDef(Forall([]*Term{i}, Implies(Not(inR(Sub(i, off))), Eq(Select(newArr, i), Select(oldArr, i))), []*Term{Select(newArr, i)}))
	if termVar != nil {
		st.heap[termVar.id] = MkSlNil(newArr.Sort.Elem, newArr, n, SlIsNil(termVal))
	} else {
		st.heap[sl.Obj.id] = newArr
	}
	// sortedness: for i<j, !less(j,i) — less is evaluated on the new content
	lt := ex.callPureB(less.Fn, []Val{j, i}, less.Bindings, st)
	if b, ok := lt.(*Term); ok && b.Sort == SBool {
		st.AssumeDef(Forall([]*Term{i, j}, Implies(And(Le(IntLit(0), i), Lt(i, j), Lt(j, n)), Not(b))))
	} else {
		ex.unsupp("sort.Slice comparator did not evaluate to a term")
	}
	return one(nil)
}

var _ = fmt.Sprintf
