package main

import (
	"bytes"
	"context"
	"fmt"
	"os"
	"os/exec"
	"path/filepath"
	"strings"
	"sync"
	"time"
)

type SolverResult struct {
	Verdict string // unsat | sat | unknown | timeout | error
	Solver  string
	TimeS   float64
	Output  string
	All     map[string]string // solver -> verdict (thorough)
}

type solverSpec struct {
	name string
	args func(file string, timeoutS int) []string
}

var solvers = []solverSpec{
	{"z3-new", func(f string, t int) []string { return []string{"z3-new", fmt.Sprintf("-T:%d", t), f} }},
	{"z3", func(f string, t int) []string { return []string{"z3", fmt.Sprintf("-T:%d", t), f} }},
	{"cvc5", func(f string, t int) []string {
		return []string{"cvc5", "--incremental", fmt.Sprintf("--tlimit=%d", t*1000), f}
	}},
}

func runOne(ctx context.Context, sp solverSpec, file string, timeoutS int) (string, string, float64) {
	a := sp.args(file, timeoutS)
	c, cancel := context.WithTimeout(ctx, time.Duration(timeoutS+2)*time.Second)
	defer cancel()
	cmd := exec.CommandContext(c, a[0], a[1:]...)
	var ob bytes.Buffer
	cmd.Stdout = &ob
	cmd.Stderr = &ob
	t0 := time.Now()
	_ = cmd.Run()
	dt := time.Since(t0).Seconds()
	out := ob.String()
	first := ""
	for _, l := range strings.Split(out, "\n") {
		l = strings.TrimSpace(l)
		if l == "" || strings.HasPrefix(l, "WARNING") || strings.HasPrefix(l, "(warning") {
			continue
		}
		first = l
		break
	}
	switch first {
	case "unsat", "sat", "unknown":
		return first, out, dt
	case "timeout":
		return "timeout", out, dt
	}
	if c.Err() != nil {
		return "timeout", out, dt
	}
	if strings.Contains(out, "timeout") || strings.Contains(out, "interrupted") {
		return "timeout", out, dt
	}
	return "error", out, dt
}

// Solve races the solvers on the query text. mode "race": first definite answer wins. mode "all": run all, collect.
func Solve(smt string, dir string, name string, timeoutS int, mode string) SolverResult {
	os.MkdirAll(dir, 0o755)
	fn := filepath.Join(dir, sanitizeFile(name)+".smt2")
	os.WriteFile(fn, []byte(smt), 0o644)
	ctx, cancel := context.WithCancel(context.Background())
	defer cancel()
	type res struct {
		solver, verdict, out string
		dt                   float64
	}
	ch := make(chan res, len(solvers))
	var wg sync.WaitGroup
	for _, sp := range solvers {
		wg.Add(1)
		go func(sp solverSpec) {
			defer wg.Done()
			v, o, dt := runOne(ctx, sp, fn, timeoutS)
			ch <- res{sp.name, v, o, dt}
		}(sp)
	}
	go func() { wg.Wait(); close(ch) }()
	all := map[string]string{}
	best := SolverResult{Verdict: "unknown", All: all}
	for r := range ch {
		all[r.solver] = r.verdict
		if r.verdict == "unsat" || r.verdict == "sat" {
			if best.Verdict != "unsat" && best.Verdict != "sat" {
				best = SolverResult{Verdict: r.verdict, Solver: r.solver, TimeS: r.dt, Output: r.out, All: all}
				if mode == "race" {
					cancel()
					return best
				}
			} else if best.Verdict != r.verdict {
				best.Verdict = "error"
				best.Output = fmt.Sprintf("solver disagreement: %s=%s %s=%s", best.Solver, best.Verdict, r.solver, r.verdict)
			}
		} else if best.Verdict != "unsat" && best.Verdict != "sat" && best.Verdict != "error" {
			if r.verdict == "timeout" || best.Solver == "" {
				best.Verdict = r.verdict
				best.Solver = r.solver
				best.TimeS = r.dt
				best.Output = r.out
			}
		}
	}
	return best
}

func sanitizeFile(s string) string {
	var sb strings.Builder
	for _, c := range s {
		if c >= 'a' && c <= 'z' || c >= 'A' && c <= 'Z' || c >= '0' && c <= '9' || c == '_' || c == '.' || c == '-' {
			sb.WriteRune(c)
		} else {
			sb.WriteByte('_')
		}
	}
	r := sb.String()
	if len(r) > 180 {
		r = r[:180]
	}
	return r
}
