package main

// Go types -> SMT sorts.

import (
	"fmt"
	"hash/fnv"
	"go/types"
	"strings"
)

var (
	SErr   = UninterpSort("Err")
	SIface = UninterpSort("Iface")
	ErrNil = Var("err_nil", SErr)
	IfaceNil = Var("iface_nil", SIface)
)

var sortCache = map[types.Type]*Sort{}
var sortInProgress = map[string]bool{}

// types whose values are modelled as mathematical integers
var intLikeNamed = map[string]bool{
	"time.Time": true, "time.Duration": true,
	"cosmossdk.io/math.Int": true, "cosmossdk.io/math.LegacyDec": true, "cosmossdk.io/math.Uint": true,
	"math/big.Int": true,
}

func qualName(n *types.Named) string {
	o := n.Obj()
	if o.Pkg() == nil {
		return o.Name()
	}
	return o.Pkg().Path() + "." + o.Name()
}

func shortName(n *types.Named) string {
	o := n.Obj()
	if o.Pkg() == nil {
		return o.Name()
	}
	parts := strings.Split(o.Pkg().Path(), "/")
	if len(parts) > 2 {
		parts = parts[len(parts)-2:]
	}
	s := strings.Join(parts, "_") + "_" + o.Name()
	s = strings.NewReplacer(".", "_", "-", "_").Replace(s)
	if n.TypeArgs() != nil && n.TypeArgs().Len() > 0 {
		s += fmt.Sprintf("_g%d", n.TypeArgs().Len())
	}
	return s
}

func isByteSlice(t types.Type) bool {
	if s, ok := t.Underlying().(*types.Slice); ok {
		if b, ok := s.Elem().Underlying().(*types.Basic); ok && (b.Kind() == types.Byte || b.Kind() == types.Uint8) {
			return true
		}
	}
	return false
}

func isStringType(t types.Type) bool {
	b, ok := t.Underlying().(*types.Basic)
	return ok && b.Info()&types.IsString != 0
}

func isErrorType(t types.Type) bool {
	if n, ok := t.(*types.Named); ok && n.Obj().Pkg() == nil && n.Obj().Name() == "error" {
		return true
	}
	return false
}

func isCtxType(t types.Type) bool {
	if n, ok := types.Unalias(t).(*types.Named); ok {
		return qualName(n) == "github.com/cosmos/cosmos-sdk/types.Context"
	}
	return false
}

func sortOf(t types.Type) *Sort {
	t = types.Unalias(t)
	if s, ok := sortCache[t]; ok {
		return s
	}
	s := sortOf1(t)
	sortCache[t] = s
	return s
}

func sortOf1(t types.Type) *Sort {
	if n, ok := t.(*types.Named); ok {
		qn := qualName(n)
		if intLikeNamed[qn] {
			return SInt
		}
		if isErrorType(t) {
			return SErr
		}
		if qn == "github.com/cosmos/cosmos-sdk/types.Coins" || qn == "github.com/cosmos/cosmos-sdk/types.DecCoins" {
			return ArraySort(SBytes, SInt)
		}
	}
	switch u := t.Underlying().(type) {
	case *types.Basic:
		switch {
		case u.Info()&types.IsBoolean != 0:
			return SBool
		case u.Info()&types.IsInteger != 0:
			return SInt
		case u.Info()&types.IsString != 0:
			return SBytes
		case u.Kind() == types.UnsafePointer:
			return UninterpSort("U_unsafe")
		case u.Info()&types.IsFloat != 0:
			return UninterpSort("U_float")
		case u.Kind() == types.UntypedNil:
			return SIface
		}
		return UninterpSort("U_basic")
	case *types.Slice:
		if isByteSlice(t) {
			return SBytes
		}
		es := sortOf(u.Elem())
		return sliceDT(es).Sort
	case *types.Array:
		return ArraySort(SInt, sortOf(u.Elem()))
	case *types.Pointer:
		es := sortOf(u.Elem())
		return optDT(es).Sort
	case *types.Map:
		return mapDT(sortOf(u.Key()), sortOf(u.Elem())).Sort
	case *types.Interface:
		if isErrorType(t) {
			return SErr
		}
		return SIface
	case *types.Signature:
		return UninterpSort("U_func")
	case *types.Chan:
		return UninterpSort("U_chan")
	case *types.Struct:
		name := ""
		if n, ok := t.(*types.Named); ok {
			name = "S_" + shortName(n)
		} else {
			// anonymous struct types are identical when their field lists are: name them by structure
			h := fnv.New32a()
			h.Write([]byte(types.TypeString(t, nil)))
			name = fmt.Sprintf("S_anon_%08x", h.Sum32())
		}
		if sortInProgress[name] {
			return UninterpSort("U_rec_" + name)
		}
		if s, ok := sortTable[name]; ok {
			return s
		}
		sortInProgress[name] = true
		var fields []DTField
		for i := 0; i < u.NumFields(); i++ {
			f := u.Field(i)
			fs := sortOf(f.Type())
			fields = append(fields, DTField{Name: name + "." + f.Name(), Sort: fs})
		}
		delete(sortInProgress, name)
		d := NewDT(name)
		d.Cons = []DTCons{{Name: "mk_" + name, Fields: fields}}
		return d.Sort
	case *types.TypeParam:
		return UninterpSort("U_tparam")
	case *types.Tuple:
		return UninterpSort("U_tuple")
	}
	return UninterpSort("U_other")
}

func sliceDT(es *Sort) *DTDecl {
	name := "Sl_" + sortIdent(es)
	if s, ok := sortTable[name]; ok {
		return s.DT
	}
	d := NewDT(name)
	d.Cons = []DTCons{{Name: "mk_" + name, Fields: []DTField{{name + ".arr", ArraySort(SInt, es)}, {name + ".len", SInt}, {name + ".isnil", SBool}}}}
	return d
}

func optDT(es *Sort) *DTDecl {
	name := "Opt_" + sortIdent(es)
	if s, ok := sortTable[name]; ok {
		return s.DT
	}
	d := NewDT(name)
	d.Cons = []DTCons{{Name: "none_" + name}, {Name: "some_" + name, Fields: []DTField{{name + ".val", es}}}}
	return d
}

func mapDT(ks, vs *Sort) *DTDecl {
	name := "Map_" + sortIdent(ks) + "_" + sortIdent(vs)
	if s, ok := sortTable[name]; ok {
		return s.DT
	}
	d := NewDT(name)
	d.Cons = []DTCons{{Name: "mk_" + name, Fields: []DTField{{name + ".has", ArraySort(ks, SBool)}, {name + ".val", ArraySort(ks, vs)}}}}
	return d
}

func sortIdent(s *Sort) string {
	r := strings.NewReplacer("(", "", ")", "", " ", "_").Replace(s.Name)
	return r
}

func isSliceSort(s *Sort) bool { return s.Kind == KDT && strings.HasPrefix(s.Name, "Sl_") }
func isOptSort(s *Sort) bool   { return s.Kind == KDT && strings.HasPrefix(s.Name, "Opt_") }
func isMapSort(s *Sort) bool   { return s.Kind == KDT && strings.HasPrefix(s.Name, "Map_") }

func SlArr(x *Term) *Term { return Sel(x.Sort.DT, 0, 0, x) }
func SlLen(x *Term) *Term { return Sel(x.Sort.DT, 0, 1, x) }
func MkSl(es *Sort, arr, n *Term) *Term {
	return Cons(sliceDT(es), 0, arr, n, False)
}
func MkSlNil(es *Sort, arr, n, isnil *Term) *Term {
	return Cons(sliceDT(es), 0, arr, n, isnil)
}
func SlIsNil(x *Term) *Term { return Sel(x.Sort.DT, 0, 2, x) }
func OptNone(es *Sort) *Term       { return Cons(optDT(es), 0) }
func OptSome(x *Term) *Term        { return Cons(optDT(x.Sort), 1, x) }
func OptIsSome(x *Term) *Term      { return Is(x.Sort.DT, 1, x) }
func OptVal(x *Term) *Term         { return Sel(x.Sort.DT, 1, 0, x) }
func MapHas(m *Term) *Term         { return Sel(m.Sort.DT, 0, 0, m) }
func MapVals(m *Term) *Term        { return Sel(m.Sort.DT, 0, 1, m) }
func MkMap(ks, vs *Sort, has, val *Term) *Term {
	return Cons(mapDT(ks, vs), 0, has, val)
}

// zeroTerm gives the Go zero value of type t as a term.
func zeroTerm(t types.Type) *Term {
	t = types.Unalias(t)
	s := sortOf(t)
	switch s.Kind {
	case KInt:
		return IntLit(0)
	case KBool:
		return False
	case KBytes:
		if isStringType(t) {
			return Lit("")
		}
		return BNil
	case KArray:
		switch u := t.Underlying().(type) {
		case *types.Array:
			return ConstArr(s, zeroTerm(u.Elem()))
		}
		// Coins / DecCoins
		return ConstArr(s, IntLit(0))
	case KDT:
		switch u := t.Underlying().(type) {
		case *types.Struct:
			var args []*Term
			for i := 0; i < u.NumFields(); i++ {
				args = append(args, zeroTerm(u.Field(i).Type()))
			}
			return Cons(s.DT, 0, args...)
		case *types.Slice:
			es := sortOf(u.Elem())
			return MkSlNil(es, ConstArr(ArraySort(SInt, es), zeroTerm(u.Elem())), IntLit(0), True)
		case *types.Pointer:
			return Cons(s.DT, 0)
		case *types.Map:
			ks, vs := sortOf(u.Key()), sortOf(u.Elem())
			return MkMap(ks, vs, ConstArr(ArraySort(ks, SBool), False), ConstArr(ArraySort(ks, vs), zeroTerm(u.Elem())))
		}
	case KUninterp:
		if s == SErr {
			return ErrNil
		}
		if s == SIface {
			return IfaceNil
		}
		return Var("zero_"+s.Name, s)
	}
	return Var("zero_"+sortIdent(s), s)
}

// intRange returns the representable range of an integer type (ok=false for non-integers / modelled-as-int types).
func intRange(t types.Type) (lo, hi string, ok bool) {
	b, isb := types.Unalias(t).Underlying().(*types.Basic)
	if !isb {
		return "", "", false
	}
	switch b.Kind() {
	case types.Int, types.Int64:
		return "-9223372036854775808", "9223372036854775807", true
	case types.Int32:
		return "-2147483648", "2147483647", true
	case types.Int16:
		return "-32768", "32767", true
	case types.Int8:
		return "-128", "127", true
	case types.Uint, types.Uint64, types.Uintptr:
		return "0", "18446744073709551615", true
	case types.Uint32:
		return "0", "4294967295", true
	case types.Uint16:
		return "0", "65535", true
	case types.Uint8:
		return "0", "255", true
	}
	return "", "", false
}
