package main

import (
	"fmt"
	"os"
	"go/constant"
	"go/token"
	"go/types"
	"math/big"
	"sort"
	"strings"

	"golang.org/x/tools/go/ssa"
)

type ObRecord struct {
	Name string
	Kind string // ensures pre loop.init loop.preserve nopanic overflow modifies lemma cover
	PC   *Term
	Cond *Term
	Pos  string
}

type Exec struct {
	prog      *ssa.Program
	fset      *token.FileSet
	contracts *ContractSet
	obs       []*ObRecord
	warnings  map[string]int
	axioms    []*Term
	globals   map[*ssa.Global]*Obj
	topFn     *ssa.Function
	fnPrefix  string // obligation name prefix of the function under verification
	inlineMax int
	nstates   int
	maxStates int
	unsupported []string
	loopInfo  map[*ssa.Function]*LoopInfo
	pureCache map[*ssa.Function]*effectSummary
	specMode  int // >0: evaluating a closure/spec expression: obligations are dropped
	trace     bool
	covers    []*ObRecord
	useContracts bool // apply callee contracts at call sites (modular); false => inline everything
	noContractFor map[string]bool
	callStack []*ssa.Function
	assumed   map[string]int
	site      string
	initDone  map[*ssa.Package]bool
	inInit    map[*ssa.Package]bool
	globalVals map[*ssa.Global]*Term
	initStates map[*ssa.Package]*State
	recorders  []*recorder
	skipHeader *ssa.BasicBlock
	forkCount  map[string]int
	joins      map[*ssa.Function]*joinInfo
	noMerge    bool
	wsCache    map[*ssa.Function]*WriteSet
	precallSeen map[string]bool
	loopOfPos  map[token.Pos]int
	invUnbound bool // set by evalInvariant when the clause could not be evaluated
	iterPrefix map[string]*Term
	arrayFam   map[string]int
}

// WriteSet: what a piece of code may write, discovered by symbolically executing it from an arbitrary state.
type WriteSet struct {
	fams    map[int]bool // key families (first byte) written in the store
	all     bool         // a key of unknown family was written
	effects bool         // a dependency command was issued (E and X change)
}

type recorder struct {
	byWorld map[int]*WriteSet
}

func (r *recorder) ws(w int) *WriteSet {
	x := r.byWorld[w]
	if x == nil {
		x = &WriteSet{fams: map[int]bool{}}
		r.byWorld[w] = x
	}
	return x
}

func (ex *Exec) recordWrite(world int, key *Term) {
	for _, r := range ex.recorders {
		w := r.ws(world)
		f := Fam(key)
		if f.Op == "int" && f.Int.IsInt64() {
			w.fams[int(f.Int.Int64())] = true
		} else if fb := ex.iterKeyFamily(key); fb >= 0 {
			w.fams[fb] = true
		} else {
			w.all = true
		}
	}
}

// iterKeyFamily: keys produced by a prefix iterator have the family of the prefix.
func (ex *Exec) iterKeyFamily(key *Term) int {
	if key.Op == "uf" && strings.HasPrefix(key.Str, "itkey@") {
		if p, ok := ex.iterPrefix[key.Str]; ok && p != nil {
			f := Fam(p)
			if f.Op == "int" && f.Int.IsInt64() {
				return int(f.Int.Int64())
			}
		}
	}
	if key.Op == "ite" {
		a, b := ex.iterKeyFamily(key.Args[1]), ex.iterKeyFamily(key.Args[2])
		if a == b {
			return a
		}
	}
	if key.Op == "select" && key.Args[0].Op == "var" {
		// element of an array of collected keys: family tag of the array, if any
		if fb, ok := ex.arrayFam[key.Args[0].Str]; ok {
			return fb
		}
	}
	return -1
}

func (ex *Exec) recordEffect(world int) {
	for _, r := range ex.recorders {
		r.ws(world).effects = true
	}
}

func (ex *Exec) recordMerge(child, parent int) {
	for _, r := range ex.recorders {
		c := r.byWorld[child]
		if c == nil {
			continue
		}
		p := r.ws(parent)
		for f := range c.fams {
			p.fams[f] = true
		}
		p.all = p.all || c.all
		p.effects = p.effects || c.effects
	}
}

// discover runs f with a fresh recorder and returns what was written per world.
func (ex *Exec) discover(f func()) *recorder {
	r := &recorder{byWorld: map[int]*WriteSet{}}
	ex.recorders = append(ex.recorders, r)
	saveSpec, saveStack, saveSite := ex.specMode, ex.callStack, ex.site
	saveStates := ex.nstates
	ex.specMode++
	defer func() {
		ex.recorders = ex.recorders[:len(ex.recorders)-1]
		ex.specMode, ex.callStack, ex.site = saveSpec, saveStack, saveSite
		ex.nstates = saveStates
		if rec := recover(); rec != nil {
			// discovery failed: everything may have been written
			for _, w := range r.byWorld {
				w.all, w.effects = true, true
			}
			r.byWorld[-1] = &WriteSet{all: true, effects: true}
		}
	}()
	f()
	return r
}

// frameFor constrains a fresh world to agree with the old one outside the discovered write set.
func (ex *Exec) frameFor(st *State, old, neu *World, ws *WriteSet) {
	if ws == nil {
		// nothing written
		*neu = *old
		return
	}
	if !ws.effects {
		neu.E, neu.X = old.E, old.X
	}
	if ws.all {
		return
	}
	if len(ws.fams) == 0 {
		neu.S = old.S
		return
	}
	k := BVar("k!fr", SBytes)
	var cs []*Term
	var fl []int
	for f := range ws.fams {
		fl = append(fl, f)
	}
	sort.Ints(fl)
	for _, f := range fl {
		cs = append(cs, Neq(App("fam", k), IntLit(int64(f))))
	}
	st.AssumeDef(Forall([]*Term{k}, Implies(And(cs...), Eq(Select(neu.S, k), Select(old.S, k))), []*Term{Select(neu.S, k)}))
}

type Frame struct {
	fn      *ssa.Function
	env     map[ssa.Value]Val
	prev    *ssa.BasicBlock
	cut     map[*ssa.BasicBlock]bool // loop headers currently cut (inside the arbitrary iteration)
	unroll  map[*ssa.BasicBlock]int
	top     bool
	contract *Contract
	entry   *EntrySnapshot
	loopEntry map[*ssa.BasicBlock]*State // state at loop entry (for `entry(x)` in invariants)
	loopPrev  map[*ssa.BasicBlock]*State // state at the start of the (arbitrary) iteration after the cut (for `prev(x)` in step clauses)
	stops   []*ssa.BasicBlock           // join blocks at which execution is suspended for merging
}

func (fr *Frame) clone() *Frame {
	n := &Frame{fn: fr.fn, env: make(map[ssa.Value]Val, len(fr.env)), prev: fr.prev, cut: map[*ssa.BasicBlock]bool{}, unroll: map[*ssa.BasicBlock]int{}, top: fr.top, contract: fr.contract, entry: fr.entry, loopEntry: map[*ssa.BasicBlock]*State{}, loopPrev: map[*ssa.BasicBlock]*State{}, stops: append([]*ssa.BasicBlock(nil), fr.stops...)}
	for k, v := range fr.env {
		n.env[k] = v
	}
	for k, v := range fr.cut {
		n.cut[k] = v
	}
	for k, v := range fr.unroll {
		n.unroll[k] = v
	}
	for k, v := range fr.loopEntry {
		n.loopEntry[k] = v
	}
	for k, v := range fr.loopPrev {
		n.loopPrev[k] = v
	}
	return n
}

type Result struct {
	st  *State
	ret Val
	fr  *Frame
	at  *ssa.BasicBlock // non-nil: the path was suspended on arrival at this join block (not a function return)
}

func (ex *Exec) warn(format string, a ...interface{}) {
	m := fmt.Sprintf(format, a...)
	ex.warnings[m]++
}

func (ex *Exec) unsupp(format string, a ...interface{}) {
	m := fmt.Sprintf(format, a...)
	for _, u := range ex.unsupported {
		if u == m {
			return
		}
	}
	ex.unsupported = append(ex.unsupported, m)
}

func (ex *Exec) pos(p token.Pos) string {
	if !p.IsValid() {
		return ""
	}
	ps := ex.fset.Position(p)
	fn := ps.Filename
	if i := strings.Index(fn, "/x/ccv/"); i >= 0 {
		fn = fn[i+1:]
	}
	return fmt.Sprintf("%s:%d", fn, ps.Line)
}

// oblige records a proof obligation under the current path condition.
func (ex *Exec) oblige(st *State, kind, name string, cond *Term, pos token.Pos) {
	if ex.specMode > 0 {
		return
	}
	if os.Getenv("ICSVC_DEBUG_CONFLICT") != "" && strings.Contains(name, os.Getenv("ICSVC_DEBUG_CONFLICT")) {
		debugConflict = func(t *Term) {
			fmt.Fprintf(os.Stderr, "PC conflict in %s on: %s\n", name, t.String())
			if os.Getenv("ICSVC_DEBUG_CONFLICT_FULL") != "" {
				for i, c := range st.pc {
					fmt.Fprintf(os.Stderr, "   pc[%d] %s\n", i, c.String())
				}
			}
		}
		st.PC()
		debugConflict = nil
	}
	if cond == True {
		// still record (trivially discharged) so that obligation counts are stable
		ex.obs = append(ex.obs, &ObRecord{Name: name, Kind: kind, PC: True, Cond: True, Pos: ex.pos(pos)})
		return
	}
	ex.obs = append(ex.obs, &ObRecord{Name: name, Kind: kind, PC: st.PC(), Cond: cond, Pos: ex.pos(pos)})
}

func (ex *Exec) nopanic(st *State, what string, cond *Term, pos token.Pos) {
	ex.oblige(st, "nopanic", ex.fnPrefix+"#nopanic:"+what, cond, pos)
	st.Assume(cond)
}

// ---------------------------------------------------------------- values

func (ex *Exec) constVal(c *ssa.Const) Val {
	t := c.Type()
	if c.Value == nil {
		return ex.zeroVal(t)
	}
	switch c.Value.Kind() {
	case constant.Bool:
		return BoolLit(constant.BoolVal(c.Value))
	case constant.Int:
		bi, ok := new(big.Int).SetString(c.Value.ExactString(), 10)
		if !ok {
			panic("bad int const")
		}
		if sortOf(t) != SInt {
			// e.g. untyped const converted to float
			return Fresh("const", sortOf(t))
		}
		return BigLit(bi)
	case constant.String:
		return Lit(constant.StringVal(c.Value))
	case constant.Float:
		if sortOf(t) == SInt {
			f, _ := constant.Float64Val(c.Value)
			return IntLit(int64(f))
		}
		return Var("float_"+c.Value.ExactString(), sortOf(t))
	}
	return Fresh("const", sortOf(t))
}

func (ex *Exec) zeroVal(t types.Type) Val {
	if isCtxType(t) {
		return &OpaqueV{"zero ctx"}
	}
	return zeroTerm(t)
}

func (ex *Exec) val(fr *Frame, v ssa.Value, st *State) Val {
	switch x := v.(type) {
	case *ssa.Const:
		return ex.constVal(x)
	case *ssa.Function:
		return &FuncV{Fn: x}
	case *ssa.Global:
		o, ok := ex.globals[x]
		if !ok {
			objCounter++
			o = &Obj{id: objCounter, name: "global:" + x.Name(), typ: x.Type().(*types.Pointer).Elem()}
			ex.globals[x] = o
		}
		return &PtrV{Obj: o}
	case *ssa.Builtin:
		return &FuncV{Builtin: "go:" + x.Name()}
	}
	r, ok := fr.env[v]
	if !ok {
		panic(fmt.Sprintf("%s: no value for %s (%T) in %s", ex.fnPrefix, v.Name(), v, fr.fn.Name()))
	}
	return r
}

// globalInits runs the package initialiser once on a scratch state and records the closed-term values it
// stores into package-level variables (e.g. ack result constants).
func (ex *Exec) globalInits(pkg *ssa.Package) {
	if ex.initDone[pkg] {
		return
	}
	ex.initDone[pkg] = true
	initFn := pkg.Func("init")
	if initFn == nil || initFn.Blocks == nil {
		return
	}
	saveSpec, saveStack, saveSite, saveUns, saveWarn := ex.specMode, ex.callStack, ex.site, ex.unsupported, ex.warnings
	ex.specMode++
	ex.callStack = nil
	ex.warnings = map[string]int{}
	defer func() {
		if len(ex.unsupported) > len(saveUns) && os.Getenv("ICSVC_DEBUG_INIT") != "" {
			fmt.Fprintln(os.Stderr, "init unsupported:", pkg.Pkg.Path(), ex.unsupported[len(saveUns):])
		}
		ex.specMode, ex.callStack, ex.site, ex.unsupported, ex.warnings = saveSpec, saveStack, saveSite, saveUns, saveWarn
		if r := recover(); r != nil && os.Getenv("ICSVC_DEBUG_INIT") != "" {
			fmt.Fprintln(os.Stderr, "init panic:", pkg.Pkg.Path(), r)
		}
	}()
	st := NewState()
	rs := ex.runFunc(initFn, nil, nil, st, nil)
	if os.Getenv("ICSVC_DEBUG_INIT") != "" {
		fmt.Fprintln(os.Stderr, "init", pkg.Pkg.Path(), "paths:", len(rs))
	}
	if len(rs) != 1 {
		return
	}
	for g, o := range ex.globals {
		if g.Pkg != pkg {
			continue
		}
		if c, ok := rs[0].st.heap[o.id]; ok {
			switch v := c.(type) {
			case *Term:
				if !v.hasBV {
					ex.globalVals[g] = v
				}
			case *SliceV, *ByteSlV:
				et := g.Type().(*types.Pointer).Elem()
				ex.globalVals[g] = ex.asTerm(rs[0].st, v, et)
			}
		}
	}
	// globals first seen later are resolved from this final state too
	ex.initStates[pkg] = rs[0].st
	// definitional facts established by the initialiser (e.g. registered errors are non-nil) hold globally
	for _, d := range rs[0].st.defs {
		if !d.hasBV {
			ex.axioms = append(ex.axioms, d)
		}
	}
}

func (ex *Exec) globalDefault(o *Obj) Val {
	if o.name == "global:init$guard" {
		return False
	}
	for g, oo := range ex.globals {
		if oo == o && g.Pkg != nil && !ex.inInit[g.Pkg] {
			ex.inInit[g.Pkg] = true
			ex.globalInits(g.Pkg)
			ex.inInit[g.Pkg] = false
			if v, ok := ex.globalVals[g]; ok {
				return v
			}
			if is := ex.initStates[g.Pkg]; is != nil {
				if c, ok := is.heap[o.id]; ok {
					if t, isT := c.(*Term); isT && !t.hasBV {
						ex.globalVals[g] = t
						return t
					}
				}
			}
		}
	}
	name := strings.TrimPrefix(o.name, "global:")
	s := sortOf(o.typ)
	if s == SErr {
		e := Var("errvar_"+name, SErr)
		return e
	}
	return Var("glob_"+name, s)
}

func (ex *Exec) content(st *State, o *Obj) Val {
	if c, ok := st.heap[o.id]; ok {
		return c
	}
	if strings.HasPrefix(o.name, "global:") {
		return ex.globalDefault(o)
	}
	panic("object without content: " + o.name)
}

// asTerm converts an executor-level value to a term of the sort of type t.
func (ex *Exec) asTerm(st *State, v Val, t types.Type) *Term {
	switch x := v.(type) {
	case *Term:
		if t != nil && x.Sort != SIface {
			if _, isI := t.Underlying().(*types.Interface); isI && sortOf(t) == SIface {
				DeclareUF("box_"+sortIdent(x.Sort), []*Sort{x.Sort}, SIface)
				return App("box_"+sortIdent(x.Sort), x)
			}
		}
		return x
	case *SliceV:
		if isByteSlice(t) || (x.Elem != nil && isByteElem(x.Elem)) {
			return ex.sliceToBytes(st, x)
		}
		arr := ex.shiftedArr(st, x)
		return MkSlNil(arr.Sort.Elem, arr, x.Len, x.IsNil())
	case *ByteSlV:
		return ex.content(st, x.Obj).(*Term)
	case *MapV:
		return ex.content(st, x.Obj).(*Term)
	case *PtrV:
		c := ex.load(st, x)
		if ct, ok := c.(*Term); ok {
			return OptSome(ct)
		}
		ct := ex.asTerm(st, c, x.Obj.typ)
		return OptSome(ct)
	case *IfaceV:
		s := sortOf(t)
		if s == SErr {
			return ex.freshNonNilErr(st, "ifaceerr")
		}
		if inner, ok := x.V.(*Term); ok && s == SIface {
			DeclareUF("box_"+sortIdent(inner.Sort), []*Sort{inner.Sort}, SIface)
			return App("box_"+sortIdent(inner.Sort), inner)
		}
		if s == SIface {
			if p, ok := x.V.(*PtrV); ok {
				inner := ex.asTerm(st, p, types.NewPointer(p.Obj.typ))
				DeclareUF("box_"+sortIdent(inner.Sort), []*Sort{inner.Sort}, SIface)
				return App("box_"+sortIdent(inner.Sort), inner)
			}
			return Fresh("iface", SIface)
		}
		return ex.asTerm(st, x.V, t)
	case *FuncV:
		return Fresh("funcval", sortOf(t))
	case *OpaqueV, *CtxV, *StoreV, *IterV:
		return Fresh("opaque", sortOf(t))
	case nil:
		return zeroTerm(t)
	}
	panic(fmt.Sprintf("asTerm: %T", v))
}

func isByteElem(t types.Type) bool {
	b, ok := t.Underlying().(*types.Basic)
	return ok && (b.Kind() == types.Uint8 || b.Kind() == types.Byte)
}

// errOf converts a concrete error value to the error interface. A package-level registered error (a global
// *errors.Error that is never reassigned) converts to the same non-nil error everywhere, so that errors.Is against
// it means the same thing in the code and in a contract; any other concrete value converts to a fresh non-nil error.
func (ex *Exec) errOf(st *State, v Val, hint string) *Term {
	switch x := v.(type) {
	case *Term:
		if x.Sort == SErr {
			return x
		}
		if x.Op == "var" && strings.HasPrefix(x.Str, "glob_Err") {
			e := Det("err_of_registered", SErr, x)
			st.AssumeDef(Neq(e, ErrNil))
			return e
		}
	case *IfaceV:
		return ex.errOf(st, x.V, hint)
	}
	return ex.freshNonNilErr(st, hint)
}

// freshNonNilErr: a non-nil error identified by the program point that creates it.
func (ex *Exec) freshNonNilErr(st *State, hint string) *Term {
	e := Var("err_"+hint+"@"+ex.site, SErr)
	st.AssumeDef(Neq(e, ErrNil))
	return e
}

// shiftedArr returns an array term whose index 0 corresponds to the first element of the slice.
func (ex *Exec) shiftedArr(st *State, s *SliceV) *Term {
	arr := ex.content(st, s.Obj).(*Term)
	if s.Off.Op == "int" && s.Off.Int.Sign() == 0 {
		return arr
	}
	b := Det("shift", arr.Sort, arr, s.Off)
	i := BVar("i!sh", SInt)
	st.AssumeDef(Forall([]*Term{i}, Eq(Select(b, i), Select(arr, Add(s.Off, i))), []*Term{Select(b, i)}))
	return b
}

func (ex *Exec) sliceToBytes(st *State, s *SliceV) *Term {
	arr := ex.content(st, s.Obj).(*Term)
	if arr.Sort == SBytes {
		return arr
	}
	if s.Len.Op == "int" && s.Len.Int.IsInt64() && s.Len.Int.Int64() <= 64 {
		var parts []*Term
		for i := int64(0); i < s.Len.Int.Int64(); i++ {
			parts = append(parts, B1(Select(arr, Add(s.Off, IntLit(i)))))
		}
		return Cat(parts...)
	}
	DeclareUF("bytes_of_arr", []*Sort{arr.Sort, SInt, SInt}, SBytes)
	return App("bytes_of_arr", arr, s.Off, s.Len)
}

// asBytes: any []byte / string value as a Bytes term.
func (ex *Exec) asBytes(st *State, v Val) *Term {
	switch x := v.(type) {
	case *Term:
		if x.Sort == SBytes {
			return x
		}
		if isSliceSort(x.Sort) {
			DeclareUF("bytes_of_sl", []*Sort{x.Sort}, SBytes)
			return App("bytes_of_sl", x)
		}
	case *ByteSlV:
		return ex.content(st, x.Obj).(*Term)
	case *SliceV:
		return ex.sliceToBytes(st, x)
	case *IfaceV:
		return ex.asBytes(st, x.V)
	}
	panic(fmt.Sprintf("asBytes: %s", describeVal(v)))
}

// asSlice materialises a slice value.
func (ex *Exec) asSlice(st *State, v Val, t types.Type) *SliceV {
	switch x := v.(type) {
	case *SliceV:
		return x
	case *Term:
		if isSliceSort(x.Sort) {
			et := t.Underlying().(*types.Slice).Elem()
			o := st.NewObj("slicebacking", nil, SlArr(x))
			return &SliceV{Obj: o, Off: IntLit(0), Len: SlLen(x), Elem: et, Nil: SlIsNil(x)}
		}
	}
	panic(fmt.Sprintf("asSlice: %s", describeVal(v)))
}

func (ex *Exec) load(st *State, p *PtrV) Val {
	c := ex.content(st, p.Obj)
	if len(p.Path) == 0 {
		return c
	}
	t, ok := c.(*Term)
	if !ok {
		panic(fmt.Sprintf("load with path from non-term content %s of %s", describeVal(c), p.Obj.name))
	}
	for _, e := range p.Path {
		if e.Index != nil {
			if t.Sort == SBytes {
				t = byteAt(t, e.Index)
				continue
			}
			t = Select(t, e.Index)
		} else {
			t = Sel(t.Sort.DT, 0, e.Field, t)
		}
	}
	return t
}

func updatePath(t *Term, path []PathElem, v *Term) *Term {
	if len(path) == 0 {
		return v
	}
	e := path[0]
	if e.Index != nil {
		if t.Sort == SBytes {
			return byteSet(t, e.Index, v)
		}
		return Store(t, e.Index, updatePath(Select(t, e.Index), path[1:], v))
	}
	d := t.Sort.DT
	n := len(d.Cons[0].Fields)
	args := make([]*Term, n)
	for i := 0; i < n; i++ {
		if i == e.Field {
			args[i] = updatePath(Sel(d, 0, i, t), path[1:], v)
		} else {
			args[i] = Sel(d, 0, i, t)
		}
	}
	return Cons(d, 0, args...)
}

// byteAt / byteSet: element access on byte strings with fixed-width layout.
func byteAt(b, i *Term) *Term {
	if i.Op == "int" && i.Int.IsInt64() {
		pos := int64(0)
		for _, s := range segsOf(b) {
			n, ok := segFixedLen(s)
			if !ok {
				break
			}
			if i.Int.Int64() < pos+int64(n) {
				if s.Op == "lit" {
					return IntLit(int64(s.Str[i.Int.Int64()-pos]))
				}
				if s.Op == "b1" {
					return s.Args[0]
				}
				break
			}
			pos += int64(n)
		}
	}
	return App("bat", b, i)
}

func byteSet(b, i, v *Term) *Term {
	if i.Op == "int" && i.Int.IsInt64() {
		if n, ok := fixedTotalLen(b); ok && i.Int.Int64() < int64(n) {
			k := i.Int.Int64()
			return Cat(bslice(b, IntLit(0), IntLit(k)), B1(v), bslice(b, IntLit(k+1), IntLit(int64(n))))
		}
	}
	DeclareUF("bset", []*Sort{SBytes, SInt, SInt}, SBytes)
	return App("bset", b, i, v)
}

func (ex *Exec) store(st *State, p *PtrV, v Val, vt types.Type) {
	if len(p.Path) == 0 {
		st.heap[p.Obj.id] = v
		return
	}
	c := ex.content(st, p.Obj)
	t, ok := c.(*Term)
	if !ok {
		panic("store with path into non-term content")
	}
	st.heap[p.Obj.id] = updatePath(t, p.Path, ex.asTerm(st, v, vt))
}

// derefPtr turns a pointer value into a PtrV (materialising option terms), with a nil-check obligation.
func (ex *Exec) derefPtr(st *State, v Val, pt types.Type, pos token.Pos) *PtrV {
	switch x := v.(type) {
	case *PtrV:
		return x
	case *Term:
		if isOptSort(x.Sort) {
			ex.nopanic(st, "nilptr", OptIsSome(x), pos)
			if o, ok := st.optObj[x.id]; ok {
				return &PtrV{Obj: o}
			}
			var et types.Type
			if p, ok := pt.Underlying().(*types.Pointer); ok {
				et = p.Elem()
			}
			o := st.NewObj("deref", et, OptVal(x))
			st.optObj[x.id] = o
			return &PtrV{Obj: o}
		}
	case *IfaceV:
		return ex.derefPtr(st, x.V, pt, pos)
	}
	panic(fmt.Sprintf("derefPtr: %s", describeVal(v)))
}

func (ex *Exec) intRangeAssume(st *State, t *Term, gt types.Type) {
	if t.Sort != SInt {
		return
	}
	lo, hi, ok := intRange(gt)
	if !ok {
		return
	}
	l, _ := new(big.Int).SetString(lo, 10)
	h, _ := new(big.Int).SetString(hi, 10)
	st.Assume(And(Le(BigLit(l), t), Le(t, BigLit(h))))
}

// freshVal creates an unconstrained value of Go type t (with integer range facts).
func (ex *Exec) freshVal(st *State, hint string, t types.Type) Val {
	if isCtxType(t) {
		return &OpaqueV{"fresh ctx"}
	}
	s := sortOf(t)
	v := Fresh(hint, s)
	ex.typeInvariant(st, v, t, 0)
	return v
}

// typeInvariant assumes the representation invariants of Go values (integer ranges, non-negative lengths).
func (ex *Exec) typeInvariant(st *State, v *Term, t types.Type, depth int) {
	if depth > 3 {
		return
	}
	t = types.Unalias(t)
	if n, ok := t.(*types.Named); ok && intLikeNamed[qualName(n)] {
		return
	}
	switch u := t.Underlying().(type) {
	case *types.Basic:
		ex.intRangeAssume(st, v, t)
	case *types.Slice:
		if isSliceSort(v.Sort) {
			st.Assume(Ge(SlLen(v), IntLit(0)))
			st.Assume(Implies(SlIsNil(v), Eq(SlLen(v), IntLit(0))))
			// element invariants (integers) via quantifier
			if _, _, ok := intRange(u.Elem()); ok {
				i := BVar("i!ti", SInt)
				lo, hi, _ := intRange(u.Elem())
				l, _ := new(big.Int).SetString(lo, 10)
				h, _ := new(big.Int).SetString(hi, 10)
				e := Select(SlArr(v), i)
				st.Assume(Forall([]*Term{i}, And(Le(BigLit(l), e), Le(e, BigLit(h))), []*Term{e}))
			} else if es, ok := u.Elem().Underlying().(*types.Struct); ok {
				// integer fields of struct elements
				i := BVar("i!ti", SInt)
				e := Select(SlArr(v), i)
				var cs []*Term
				for fi := 0; fi < es.NumFields(); fi++ {
					if lo, hi, ok := intRange(es.Field(fi).Type()); ok && e.Sort.Kind == KDT {
						l, _ := new(big.Int).SetString(lo, 10)
						h, _ := new(big.Int).SetString(hi, 10)
						f := Sel(e.Sort.DT, 0, fi, e)
						cs = append(cs, Le(BigLit(l), f), Le(f, BigLit(h)))
					}
				}
				if len(cs) > 0 {
					st.Assume(Forall([]*Term{i}, And(cs...), []*Term{e}))
				}
			}
		}
	case *types.Struct:
		if n, ok := t.(*types.Named); ok && strings.HasSuffix(n.Obj().Name(), "Keeper") {
			return
		}
		if v.Sort.Kind == KDT {
			for i := 0; i < u.NumFields(); i++ {
				ft := u.Field(i).Type()
				if _, _, ok := intRange(ft); ok {
					ex.intRangeAssume(st, Sel(v.Sort.DT, 0, i, v), ft)
				} else if _, ok := ft.Underlying().(*types.Slice); ok && !isByteSlice(ft) {
					ex.typeInvariant(st, Sel(v.Sort.DT, 0, i, v), ft, depth+1)
				} else if _, ok := ft.Underlying().(*types.Struct); ok {
					ex.typeInvariant(st, Sel(v.Sort.DT, 0, i, v), ft, depth+1)
				}
			}
		}
	}
}

// ---------------------------------------------------------------- running

func (ex *Exec) newFrame(fn *ssa.Function) *Frame {
	return &Frame{fn: fn, env: map[ssa.Value]Val{}, cut: map[*ssa.BasicBlock]bool{}, unroll: map[*ssa.BasicBlock]int{}, loopEntry: map[*ssa.BasicBlock]*State{}, loopPrev: map[*ssa.BasicBlock]*State{}}
}

func (ex *Exec) runFunc(fn *ssa.Function, args []Val, bindings []Val, st *State, fr0 *Frame) []Result {
	if fn.Blocks == nil {
		panic("runFunc on external function " + fn.String())
	}
	fr := fr0
	if fr == nil {
		fr = ex.newFrame(fn)
		if ct := ex.lookupContract(fn); ct != nil && len(ct.Loops) > 0 && len(args) == len(fn.Params) {
			// inlined function with loop invariants: they refer to its own entry state
			params, ctx := ex.paramTVs(fn, args)
			fr.contract = ct
			fr.entry = &EntrySnapshot{st: st.Clone(), params: params, ctx: ctx}
		}
	}
	for i, p := range fn.Params {
		fr.env[p] = args[i]
	}
	for i, fv := range fn.FreeVars {
		fr.env[fv] = bindings[i]
	}
	ex.callStack = append(ex.callStack, fn)
	defer func() { ex.callStack = ex.callStack[:len(ex.callStack)-1] }()
	return ex.runFrom(fr, fn.Blocks[0], 0, st)
}

const maxUnroll = 80

// runBody starts executing at a loop header that is already cut, without treating the arrival as a back edge.
func (ex *Exec) runBody(fr *Frame, h *ssa.BasicBlock, st *State) []Result {
	ex.skipHeader = h
	return ex.runFrom(fr, h, 0, st)
}

func (ex *Exec) runFrom(fr *Frame, b *ssa.BasicBlock, idx int, st *State) []Result {
	for {
		if st.dead {
			if os.Getenv("ICSVC_DEBUG_DEAD") != "" && ex.specMode == 0 {
				fmt.Fprintf(os.Stderr, "dead state at %s (block %d of %s)\n", ex.site, b.Index, fr.fn.Name())
			}
			return nil
		}
		if idx == 0 && len(fr.stops) > 0 && ex.skipHeader != b {
			for _, sb := range fr.stops {
				if sb == b {
					return []Result{{st: st, fr: fr, at: b}}
				}
			}
		}
		if idx == 0 && ex.skipHeader == b {
			ex.skipHeader = nil
		} else if idx == 0 {
			li := ex.loops(fr.fn)
			if lp := li.byHeader[b]; lp != nil {
				cont, rs := ex.enterLoopHeader(fr, lp, st)
				if !cont {
					return rs
				}
			}
		}
		var next *ssa.BasicBlock
		instrs := b.Instrs
		for i := idx; i < len(instrs); i++ {
			in := instrs[i]
			ex.site = fmt.Sprintf("%s.b%d.%d", fr.fn.Name(), b.Index, i)
			switch x := in.(type) {
			case *ssa.If:
				c := ex.val(fr, x.Cond, st).(*Term)
				if c == True {
					next = b.Succs[0]
				} else if c == False {
					next = b.Succs[1]
				} else {
					j := ex.joinOf(fr.fn, b)
					if ex.forkCount != nil {
						if j == nil {
							ex.forkCount["nojoin:"+ex.site]++
						} else {
							ex.forkCount[fmt.Sprintf("join:%s->b%d", ex.site, j.Index)]++
						}
					}
					base := len(st.pc)
					st2 := st.Clone()
					fr2 := fr.clone()
					st.Assume(c)
					st2.Assume(Not(c))
					ex.nstates++
					if ex.forkCount != nil {
						ex.forkCount[ex.site]++
					}
					if ex.nstates > ex.maxStates {
						if ex.forkCount != nil {
							type kv struct {
								k string
								v int
							}
							var l []kv
							for k, v := range ex.forkCount {
								l = append(l, kv{k, v})
							}
							sort.Slice(l, func(i, j int) bool { return l[i].v > l[j].v })
							for i := 0; i < 12 && i < len(l); i++ {
								fmt.Fprintf(os.Stderr, "forks %6d at %s\n", l[i].v, l[i].k)
							}
							ex.forkCount = map[string]int{}
						}
						var stk []string
						for _, f := range ex.callStack {
							stk = append(stk, f.Name())
						}
						ex.unsupp("path explosion in %s (> %d states) at %v (spec=%d rec=%d)", ex.fnPrefix, ex.maxStates, stk, ex.specMode, len(ex.recorders))
						return nil
					}
					if j != nil {
						fr.stops = append(fr.stops, j)
						fr2.stops = append(fr2.stops, j)
					}
					var rs []Result
					if !st.dead {
						fr.prev = b
						rs = append(rs, ex.runFrom(fr, b.Succs[0], 0, st)...)
					}
					if !st2.dead {
						fr2.prev = b
						rs = append(rs, ex.runFrom(fr2, b.Succs[1], 0, st2)...)
					}
					if j == nil {
						return rs
					}
					var out, arrivals []Result
					for _, r := range rs {
						if r.at == j {
							r.fr.stops = r.fr.stops[:len(r.fr.stops)-1]
							arrivals = append(arrivals, r)
						} else {
							if r.at != nil {
								// suspended at an outer join: our own stop is no longer pending on that path
								for k := len(r.fr.stops) - 1; k >= 0; k-- {
									if r.fr.stops[k] == j {
										r.fr.stops = append(r.fr.stops[:k:k], r.fr.stops[k+1:]...)
										break
									}
								}
							}
							out = append(out, r)
						}
					}
					if ex.forkCount != nil {
						ex.forkCount[fmt.Sprintf("arrivals=%d:%s", len(arrivals), ex.site)]++
					}
					for _, m := range ex.mergeArrivals(base, j, arrivals) {
						out = append(out, ex.runFrom(m.fr, j, m.idx, m.st)...)
					}
					return out
				}
			case *ssa.Jump:
				next = b.Succs[0]
			case *ssa.Return:
				var ret Val
				switch len(x.Results) {
				case 0:
				case 1:
					ret = ex.val(fr, x.Results[0], st)
				default:
					tv := &TupleV{}
					for _, r := range x.Results {
						tv.Elems = append(tv.Elems, ex.val(fr, r, st))
					}
					ret = tv
				}
				return []Result{{st: st, ret: ret, fr: fr}}
			case *ssa.Panic:
				what := "explicit"
				ex.oblige(st, "nopanic", ex.fnPrefix+"#nopanic:"+what, False, x.Pos())
				return nil
			case *ssa.Call:
				rs := ex.doCall(fr, x, st)
				if len(rs) == 1 {
					st = rs[0].st
					fr.env[x] = rs[0].ret
					continue
				}
				var out []Result
				for k, r := range rs {
					f2 := fr
					if k < len(rs)-1 {
						f2 = fr.clone()
					}
					f2.env[x] = r.ret
					out = append(out, ex.runFrom(f2, b, i+1, r.st)...)
				}
				return out
			default:
				ex.step(fr, in, st)
			}
		}
		if next == nil {
			panic("block without terminator")
		}
		fr.prev = b
		b = next
		idx = 0
	}
}

func (ex *Exec) step(fr *Frame, in ssa.Instruction, st *State) {
	switch x := in.(type) {
	case *ssa.DebugRef:
	case *ssa.Alloc:
		et := x.Type().(*types.Pointer).Elem()
		var o *Obj
		if at, ok := et.Underlying().(*types.Array); ok && isByteElem(at.Elem()) && at.Len() <= 256 {
			// byte arrays are kept as Bytes terms
			o = st.NewObj(x.Comment, et, Lit(strings.Repeat("\x00", int(at.Len()))))
		} else {
			o = st.NewObj(x.Comment, et, ex.zeroVal(et))
		}
		fr.env[x] = &PtrV{Obj: o}
	case *ssa.Store:
		addr := ex.val(fr, x.Addr, st)
		v := ex.val(fr, x.Val, st)
		p := ex.derefPtr(st, addr, x.Addr.Type(), x.Pos())
		ex.store(st, p, v, x.Val.Type())
	case *ssa.UnOp:
		fr.env[x] = ex.unop(fr, x, st)
	case *ssa.BinOp:
		fr.env[x] = ex.binop(st, x.Op, ex.val(fr, x.X, st), ex.val(fr, x.Y, st), x.X.Type(), x.Type(), x.Pos())
	case *ssa.FieldAddr:
		base := ex.val(fr, x.X, st)
		p := ex.derefPtr(st, base, x.X.Type(), x.Pos())
		np := &PtrV{Obj: p.Obj, Path: append(append([]PathElem{}, p.Path...), PathElem{Field: x.Field})}
		// content of a struct object must be a term
		fr.env[x] = np
	case *ssa.Field:
		base := ex.val(fr, x.X, st)
		bt := ex.asTerm(st, base, x.X.Type())
		fr.env[x] = Sel(bt.Sort.DT, 0, x.Field, bt)
	case *ssa.IndexAddr:
		fr.env[x] = ex.indexAddr(fr, x, st)
	case *ssa.Index:
		base := ex.val(fr, x.X, st)
		idx := ex.val(fr, x.Index, st).(*Term)
		bt := ex.asTerm(st, base, x.X.Type())
		if bt.Sort == SBytes {
			ex.nopanic(st, "index", And(Le(IntLit(0), idx), Lt(idx, BLen(bt))), x.Pos())
			fr.env[x] = App("bat", bt, idx)
		} else {
			fr.env[x] = Select(bt, idx)
		}
	case *ssa.Slice:
		fr.env[x] = ex.sliceOp(fr, x, st)
	case *ssa.MakeSlice:
		n := ex.val(fr, x.Len, st).(*Term)
		et := x.Type().Underlying().(*types.Slice).Elem()
		ex.nopanic(st, "makeslice", Ge(n, IntLit(0)), x.Pos())
		if isByteSlice(x.Type()) {
			var c *Term
			if n.Op == "int" && n.Int.IsInt64() && n.Int.Int64() <= 256 {
				c = Lit(strings.Repeat("\x00", int(n.Int.Int64())))
			} else {
				c = Fresh("zeros", SBytes)
				st.Assume(Eq(App("blen", c), n))
			}
			o := st.NewObj("makebytes", x.Type(), c)
			fr.env[x] = &ByteSlV{Obj: o}
		} else {
			es := sortOf(et)
			o := st.NewObj("makeslice", nil, ConstArr(ArraySort(SInt, es), zeroTerm(et)))
			fr.env[x] = &SliceV{Obj: o, Off: IntLit(0), Len: n, Elem: et}
		}
	case *ssa.MakeMap:
		mt := x.Type().Underlying().(*types.Map)
		o := st.NewObj("makemap", x.Type(), zeroTerm(x.Type()))
		fr.env[x] = &MapV{Obj: o, Key: mt.Key(), Elt: mt.Elem()}
	case *ssa.MapUpdate:
		m := ex.asMap(st, ex.val(fr, x.Map, st), x.Map.Type())
		k := ex.asTerm(st, ex.val(fr, x.Key, st), m.Key)
		v := ex.asTerm(st, ex.val(fr, x.Value, st), m.Elt)
		c := ex.content(st, m.Obj).(*Term)
		st.heap[m.Obj.id] = MkMap(k.Sort, v.Sort, Store(MapHas(c), k, True), Store(MapVals(c), k, v))
	case *ssa.Lookup:
		fr.env[x] = ex.lookup(fr, x, st)
	case *ssa.MakeClosure:
		fv := &FuncV{Fn: x.Fn.(*ssa.Function)}
		for _, b := range x.Bindings {
			fv.Bindings = append(fv.Bindings, ex.val(fr, b, st))
		}
		fr.env[x] = fv
	case *ssa.MakeInterface:
		v := ex.val(fr, x.X, st)
		fr.env[x] = ex.makeInterface(st, v, x.X.Type(), x.Type())
	case *ssa.ChangeInterface:
		fr.env[x] = ex.val(fr, x.X, st)
	case *ssa.ChangeType:
		v := ex.val(fr, x.X, st)
		fr.env[x] = ex.changeType(st, v, x.X.Type(), x.Type())
	case *ssa.Convert:
		fr.env[x] = ex.convert(st, ex.val(fr, x.X, st), x.X.Type(), x.Type(), x.Pos())
	case *ssa.TypeAssert:
		fr.env[x] = ex.typeAssert(fr, x, st)
	case *ssa.Extract:
		tv := ex.val(fr, x.Tuple, st).(*TupleV)
		fr.env[x] = tv.Elems[x.Index]
	case *ssa.Phi:
		for i, p := range x.Block().Preds {
			if p == fr.prev {
				fr.env[x] = ex.val(fr, x.Edges[i], st)
				return
			}
		}
		panic("phi: predecessor not found")
	case *ssa.Defer:
		// deferred calls are not executed; only iterator Close / recover-free cleanups are expected
		name := ""
		if x.Call.IsInvoke() {
			name = x.Call.Method.Name()
		} else if f, ok := x.Call.Value.(*ssa.Function); ok {
			name = f.Name()
		}
		if name != "Close" {
			ex.warn("defer of %s ignored in %s", name, fr.fn.Name())
		}
	case *ssa.RunDefers:
	case *ssa.Range:
		fr.env[x] = ex.rangeInit(fr, x, st)
	case *ssa.Next:
		fr.env[x] = ex.rangeNext(fr, x, st)
	case *ssa.Go, *ssa.Send, *ssa.Select, *ssa.MakeChan:
		ex.unsupp("concurrency instruction %T in %s", in, fr.fn.Name())
	default:
		ex.unsupp("instruction %T in %s", in, fr.fn.Name())
		if v, ok := in.(ssa.Value); ok {
			fr.env[v] = ex.freshVal(st, "unsupp", v.Type())
		}
	}
}

func (ex *Exec) asMap(st *State, v Val, t types.Type) *MapV {
	switch x := v.(type) {
	case *MapV:
		return x
	case *Term:
		mt := t.Underlying().(*types.Map)
		o := st.NewObj("mapterm", t, x)
		return &MapV{Obj: o, Key: mt.Key(), Elt: mt.Elem()}
	}
	panic("asMap: " + describeVal(v))
}

func (ex *Exec) unop(fr *Frame, x *ssa.UnOp, st *State) Val {
	v := ex.val(fr, x.X, st)
	switch x.Op {
	case token.MUL:
		if t, ok := v.(*Term); ok && isOptSort(t.Sort) {
			// load of a whole pointee from an option term: keep it a pure value (no object needed)
			ex.nopanic(st, "nilptr", OptIsSome(t), x.Pos())
			if o, ok := st.optObj[t.id]; ok {
				return ex.content(st, o)
			}
			return OptVal(t)
		}
		p := ex.derefPtr(st, v, x.X.Type(), x.Pos())
		return ex.load(st, p)
	case token.NOT:
		return Not(v.(*Term))
	case token.SUB:
		return Neg(v.(*Term))
	case token.XOR:
		DeclareUF("bitnot", []*Sort{SInt}, SInt)
		return App("bitnot", v.(*Term))
	}
	ex.unsupp("unop %s", x.Op)
	return ex.freshVal(st, "unop", x.Type())
}

func (ex *Exec) isNilVal(st *State, v Val, t types.Type) *Term {
	switch x := v.(type) {
	case *Term:
		switch {
		case x.Sort == SBytes:
			return Eq(x, BNil)
		case x.Sort == SErr:
			return Eq(x, ErrNil)
		case x.Sort == SIface:
			return Eq(x, IfaceNil)
		case isOptSort(x.Sort):
			return Not(OptIsSome(x))
		case isSliceSort(x.Sort):
			return SlIsNil(x)
		case isMapSort(x.Sort):
			DeclareUF("mapnil_"+sortIdent(x.Sort), []*Sort{x.Sort}, SBool)
			return App("mapnil_"+sortIdent(x.Sort), x)
		}
		return Eq(x, zeroTerm(t))
	case *PtrV, *FuncV, *MapV, *ByteSlV, *CtxV, *StoreV, *IterV, *OpaqueV:
		return False
	case *SliceV:
		return x.IsNil()
	case *IfaceV:
		return False
	case nil:
		return True
	}
	panic("isNilVal: " + describeVal(v))
}

func isNilConst(v ssa.Value) bool {
	c, ok := v.(*ssa.Const)
	return ok && c.Value == nil && !isStructy(c.Type())
}

func isStructy(t types.Type) bool {
	switch t.Underlying().(type) {
	case *types.Struct, *types.Basic, *types.Array:
		return true
	}
	return false
}

func (ex *Exec) binop(st *State, op token.Token, a, b Val, xt, rt types.Type, pos token.Pos) Val {
	switch op {
	case token.EQL, token.NEQ:
		var r *Term
		at, aok := a.(*Term)
		bt, bok := b.(*Term)
		switch {
		case aok && bok && at.Sort == bt.Sort:
			// comparisons with the nil/zero constant of slices and maps
			if isSliceSort(at.Sort) {
				if isZeroSlice(bt) {
					r = ex.isNilVal(st, at, xt)
				} else if isZeroSlice(at) {
					r = ex.isNilVal(st, bt, xt)
				}
			}
			if r == nil {
				r = Eq(at, bt)
			}
		case aok && !bok:
			r = ex.eqMixed(st, b, at, xt)
		case !aok && bok:
			r = ex.eqMixed(st, a, bt, xt)
		default:
			pa, ok1 := a.(*PtrV)
			pb, ok2 := b.(*PtrV)
			if ok1 && ok2 {
				r = BoolLit(pa.Obj == pb.Obj && len(pa.Path) == len(pb.Path))
			} else {
				ex.warn("comparison of executor-level values %s / %s treated as unknown", describeVal(a), describeVal(b))
				r = Fresh("cmp", SBool)
			}
		}
		if op == token.NEQ {
			return Not(r)
		}
		return r
	}
	at := ex.asTerm(st, a, xt)
	bt := ex.asTerm(st, b, xt)
	if at.Sort == SBytes {
		switch op {
		case token.ADD:
			return Cat(at, bt)
		case token.LSS, token.GTR, token.LEQ, token.GEQ:
			DeclareUF("bytes_lt", []*Sort{SBytes, SBytes}, SBool)
			switch op {
			case token.LSS:
				return App("bytes_lt", at, bt)
			case token.GTR:
				return App("bytes_lt", bt, at)
			case token.LEQ:
				return Not(App("bytes_lt", bt, at))
			default:
				return Not(App("bytes_lt", at, bt))
			}
		}
	}
	if at.Sort != SInt {
		ex.unsupp("binop %s on sort %s", op, at.Sort.Name)
		return ex.freshVal(st, "binop", rt)
	}
	var r *Term
	switch op {
	case token.ADD:
		r = Add(at, bt)
	case token.SUB:
		r = Sub(at, bt)
	case token.MUL:
		r = Mul(at, bt)
	case token.QUO:
		ex.nopanic(st, "divzero", Neq(bt, IntLit(0)), pos)
		r = Div(at, bt)
	case token.REM:
		ex.nopanic(st, "divzero", Neq(bt, IntLit(0)), pos)
		r = Mod(at, bt)
	case token.LSS:
		return Lt(at, bt)
	case token.LEQ:
		return Le(at, bt)
	case token.GTR:
		return Gt(at, bt)
	case token.GEQ:
		return Ge(at, bt)
	case token.AND, token.OR, token.XOR, token.SHL, token.SHR, token.AND_NOT:
		name := map[token.Token]string{token.AND: "bitand", token.OR: "bitor", token.XOR: "bitxor", token.SHL: "shl", token.SHR: "shr", token.AND_NOT: "bitandnot"}[op]
		DeclareUF(name, []*Sort{SInt, SInt}, SInt)
		return App(name, at, bt)
	default:
		ex.unsupp("binop %s", op)
		return ex.freshVal(st, "binop", rt)
	}
	// machine arithmetic: the result must be representable (obligation kind overflow); then treated as mathematical
	if lo, hi, ok := intRange(rt); ok && (op == token.ADD || op == token.SUB || op == token.MUL) {
		l, _ := new(big.Int).SetString(lo, 10)
		h, _ := new(big.Int).SetString(hi, 10)
		c := And(Le(BigLit(l), r), Le(r, BigLit(h)))
		if c != True {
			if pos.IsValid() {
				ex.oblige(st, "overflow", ex.fnPrefix+"#overflow"+ex.loopTag(pos, ":"), c, pos)
			}
			// (synthetic arithmetic without a source position is the range-loop index increment, bounded by len)
			st.Assume(c)
		}
	}
	return r
}

func isZeroSlice(t *Term) bool {
	return t.Op == "cons" && len(t.Args) == 3 && t.Args[1].Op == "int" && t.Args[1].Int.Sign() == 0 && t.Args[0].Op == "constarr" && t.Args[2] == True
}

func (ex *Exec) eqMixed(st *State, ev Val, t *Term, typ types.Type) *Term {
	// t is a term, ev an executor-level value
	isNilTerm := t == BNil || t == ErrNil || t == IfaceNil || (t.Op == "cons" && isOptSort(t.Sort) && len(t.Args) == 0) || isZeroSlice(t)
	if isNilTerm {
		return ex.isNilVal(st, ev, typ)
	}
	return Eq(ex.asTerm(st, ev, typ), t)
}

func (ex *Exec) indexAddr(fr *Frame, x *ssa.IndexAddr, st *State) Val {
	base := ex.val(fr, x.X, st)
	idx := ex.val(fr, x.Index, st).(*Term)
	switch xt := x.X.Type().Underlying().(type) {
	case *types.Pointer: // pointer to array
		p := ex.derefPtr(st, base, x.X.Type(), x.Pos())
		n := xt.Elem().Underlying().(*types.Array).Len()
		ex.nopanic(st, "index", And(Le(IntLit(0), idx), Lt(idx, IntLit(n))), x.Pos())
		return &PtrV{Obj: p.Obj, Path: append(append([]PathElem{}, p.Path...), PathElem{Field: -1, Index: idx})}
	case *types.Slice:
		if bs, ok := base.(*ByteSlV); ok {
			_ = bs
			ex.unsupp("element address of []byte in %s", fr.fn.Name())
			o := st.NewObj("byteelem", xt.Elem(), Fresh("byteelem", SInt))
			return &PtrV{Obj: o}
		}
		if bt, ok := base.(*Term); ok && bt.Sort == SBytes {
			// read-only use: materialise a cell holding the byte
			ex.nopanic(st, "index", And(Le(IntLit(0), idx), Lt(idx, BLen(bt))), x.Pos())
			o := st.NewObj("byteelem", xt.Elem(), App("bat", bt, idx))
			return &PtrV{Obj: o}
		}
		s := ex.asSlice(st, base, x.X.Type())
		ex.nopanic(st, "index", And(Le(IntLit(0), idx), Lt(idx, s.Len)), x.Pos())
		return &PtrV{Obj: s.Obj, Path: []PathElem{{Field: -1, Index: Add(s.Off, idx)}}}
	}
	panic("indexAddr on " + x.X.Type().String())
}

func (ex *Exec) sliceOp(fr *Frame, x *ssa.Slice, st *State) Val {
	base := ex.val(fr, x.X, st)
	var lo, hi *Term
	if x.Low != nil {
		lo = ex.val(fr, x.Low, st).(*Term)
	} else {
		lo = IntLit(0)
	}
	if x.High != nil {
		hi = ex.val(fr, x.High, st).(*Term)
	}
	switch xt := x.X.Type().Underlying().(type) {
	case *types.Pointer: // *[N]T
		p := ex.derefPtr(st, base, x.X.Type(), x.Pos())
		at := xt.Elem().Underlying().(*types.Array)
		if hi == nil {
			hi = IntLit(at.Len())
		}
		if len(p.Path) != 0 {
			ex.unsupp("slice of nested array")
		}
		if c, ok := ex.content(st, p.Obj).(*Term); ok && c.Sort == SBytes {
			if lo.Op == "int" && lo.Int.Sign() == 0 && hi.Op == "int" && hi.Int.Int64() == at.Len() {
				return &ByteSlV{Obj: p.Obj}
			}
			return bslice(c, lo, hi)
		}
		return &SliceV{Obj: p.Obj, Off: lo, Len: Sub(hi, lo), Elem: at.Elem()}
	case *types.Basic: // string
		bt := ex.asBytes(st, base)
		if hi == nil {
			hi = BLen(bt)
		}
		ex.nopanic(st, "slice", And(Le(IntLit(0), lo), Le(lo, hi), Le(hi, BLen(bt))), x.Pos())
		return bslice(bt, lo, hi)
	case *types.Slice:
		if isByteSlice(x.X.Type()) {
			bt := ex.asBytes(st, base)
			if hi == nil {
				hi = BLen(bt)
			}
			ex.nopanic(st, "slice", And(Le(IntLit(0), lo), Le(lo, hi), Le(hi, BLen(bt))), x.Pos())
			return bslice(bt, lo, hi)
		}
		s := ex.asSlice(st, base, x.X.Type())
		if hi == nil {
			hi = s.Len
		}
		ex.nopanic(st, "slice", And(Le(IntLit(0), lo), Le(lo, hi), Le(hi, s.Len)), x.Pos())
		return &SliceV{Obj: s.Obj, Off: Add(s.Off, lo), Len: Sub(hi, lo), Elem: s.Elem, Nil: s.Nil}
	}
	panic("sliceOp")
}

func bslice(b, lo, hi *Term) *Term {
	if lo.Op == "int" && lo.Int.Sign() == 0 {
		if l := BLen(b); l == hi {
			return b
		}
	}
	if b.Op == "lit" && lo.Op == "int" && hi.Op == "int" {
		l, h := int(lo.Int.Int64()), int(hi.Int.Int64())
		if 0 <= l && l <= h && h <= len(b.Str) {
			return Lit(b.Str[l:h])
		}
	}
	// structural slicing of concatenations at segment boundaries
	if isBytesConstruct(b) && lo.Op == "int" && hi.Op == "int" {
		segs := segsOf(b)
		pos := 0
		l, h := int(lo.Int.Int64()), int(hi.Int.Int64())
		var out []*Term
		okk := true
		for _, s := range segs {
			if pos >= h {
				break
			}
			n, fixed := segFixedLen(s)
			if !fixed {
				okk = false
				break
			}
			if pos >= l && pos+n <= h {
				out = append(out, s)
			} else if pos+n <= l {
			} else if s.Op == "lit" {
				a, z := l-pos, h-pos
				if a < 0 {
					a = 0
				}
				if z > n {
					z = n
				}
				out = append(out, Lit(s.Str[a:z]))
			} else {
				okk = false
				break
			}
			pos += n
		}
		if okk && pos >= h {
			return Cat(out...)
		}
	}
	return App("bslice", b, lo, hi)
}

func (ex *Exec) lookup(fr *Frame, x *ssa.Lookup, st *State) Val {
	base := ex.val(fr, x.X, st)
	if _, ok := x.X.Type().Underlying().(*types.Map); ok {
		m := ex.asMap(st, base, x.X.Type())
		k := ex.asTerm(st, ex.val(fr, x.Index, st), m.Key)
		c := ex.content(st, m.Obj).(*Term)
		has := Select(MapHas(c), k)
		v := Ite(has, Select(MapVals(c), k), zeroTerm(m.Elt))
		if x.CommaOk {
			return &TupleV{Elems: []Val{v, has}}
		}
		return v
	}
	// string index
	bt := ex.asBytes(st, base)
	idx := ex.val(fr, x.Index, st).(*Term)
	ex.nopanic(st, "index", And(Le(IntLit(0), idx), Lt(idx, BLen(bt))), x.Pos())
	return App("bat", bt, idx)
}

func (ex *Exec) makeInterface(st *State, v Val, from, to types.Type) Val {
	if sortOf(to) == SErr {
		if t, ok := v.(*Term); ok && t.Sort == SErr {
			return t
		}
		// a concrete error value converted to error: non-nil
		return ex.errOf(st, v, "conv")
	}
	return &IfaceV{Dyn: from, V: v}
}

func (ex *Exec) changeType(st *State, v Val, from, to types.Type) Val {
	if t, ok := v.(*Term); ok {
		fs, ts := sortOf(from), sortOf(to)
		if fs != ts {
			// e.g. named struct conversions between identical underlying types: rebuild
			if fs.Kind == KDT && ts.Kind == KDT && len(fs.DT.Cons) == 1 && len(ts.DT.Cons) == 1 && len(fs.DT.Cons[0].Fields) == len(ts.DT.Cons[0].Fields) {
				var args []*Term
				for i := range fs.DT.Cons[0].Fields {
					args = append(args, Sel(fs.DT, 0, i, t))
				}
				return Cons(ts.DT, 0, args...)
			}
			if isCoinsLike(from) || isCoinsLike(to) {
				// sdk.Coins / sdk.DecCoins are opaque multisets (Array Bytes Int); their []Coin view is the same opaque value
				return t
			}
			ex.unsupp("changeType %s -> %s", from, to)
			return Fresh("ct", ts)
		}
	}
	return v
}

func (ex *Exec) convert(st *State, v Val, from, to types.Type, pos token.Pos) Val {
	fs, ts := sortOf(from), sortOf(to)
	if fs == SBytes && ts == SBytes {
		if isByteSlice(to) {
			// string -> []byte or []byte -> []byte: a fresh mutable copy is not needed unless written; keep as term
			return ex.asBytes(st, v)
		}
		return ex.asBytes(st, v)
	}
	if fs == SInt && ts == SInt {
		t := v.(*Term)
		if lo, hi, ok := intRange(to); ok {
			if flo, fhi, ok2 := intRange(from); !ok2 || flo != lo || fhi != hi {
				l, _ := new(big.Int).SetString(lo, 10)
				h, _ := new(big.Int).SetString(hi, 10)
				c := And(Le(BigLit(l), t), Le(t, BigLit(h)))
				if c != True {
					// is the source range included in the target range?
					incl := false
					if ok2 {
						fl, _ := new(big.Int).SetString(flo, 10)
						fh, _ := new(big.Int).SetString(fhi, 10)
						incl = fl.Cmp(l) >= 0 && fh.Cmp(h) <= 0
					}
					if !incl {
						ex.oblige(st, "overflow", ex.fnPrefix+"#overflow:conv"+ex.loopTag(pos, "."), c, pos)
						st.Assume(c)
					}
				}
			}
		}
		return t
	}
	if fs == ts {
		return v
	}
	if fs == SInt && ts == SBytes {
		DeclareUF("rune_to_string", []*Sort{SInt}, SBytes)
		return App("rune_to_string", v.(*Term))
	}
	ex.unsupp("convert %s -> %s", from, to)
	return ex.freshVal(st, "conv", to)
}

func (ex *Exec) typeAssert(fr *Frame, x *ssa.TypeAssert, st *State) Val {
	v := ex.val(fr, x.X, st)
	var res Val
	var ok *Term
	switch iv := v.(type) {
	case *IfaceV:
		if types.Identical(iv.Dyn, x.AssertedType) {
			res, ok = iv.V, True
		} else if _, isI := x.AssertedType.Underlying().(*types.Interface); isI {
			if types.AssignableTo(iv.Dyn, x.AssertedType) {
				res, ok = iv, True
			} else {
				res, ok = ex.zeroVal(x.AssertedType), False
			}
		} else {
			res, ok = ex.zeroVal(x.AssertedType), False
		}
	case *Term:
		if iv.Sort == SErr && sortOf(x.AssertedType) == SErr {
			res, ok = iv, Neq(iv, ErrNil)
			break
		}
		ts := sortOf(x.AssertedType)
		name := "as_" + sortIdent(ts) + "_" + typeTag(x.AssertedType)
		DeclareUF(name, []*Sort{iv.Sort}, ts)
		DeclareUF("is_"+name, []*Sort{iv.Sort}, SBool)
		res, ok = App(name, iv), App("is_"+name, iv)
	default:
		if isCtxType(x.AssertedType) {
			res, ok = v, True
		} else {
			ex.warn("type assertion on %s treated as failing", describeVal(v))
			res, ok = ex.zeroVal(x.AssertedType), False
		}
	}
	if x.CommaOk {
		return &TupleV{Elems: []Val{res, ok}}
	}
	ex.nopanic(st, "typeassert", ok, x.Pos())
	return res
}

func typeTag(t types.Type) string {
	s := types.TypeString(t, func(p *types.Package) string { return p.Name() })
	return strings.NewReplacer("*", "P", ".", "_", "[", "_", "]", "_", " ", "", "/", "_", "{", "", "}", "").Replace(s)
}

// ---------------------------------------------------------------- map iteration

func (ex *Exec) rangeInit(fr *Frame, x *ssa.Range, st *State) Val {
	base := ex.val(fr, x.X, st)
	if mt, ok := x.X.Type().Underlying().(*types.Map); ok {
		m := ex.asMap(st, base, x.X.Type())
		c := ex.content(st, m.Obj).(*Term)
		ks := sortOf(mt.Key())
		n := Det("mapn", SInt, c)
		keyAt := DetName("mapkey", c)
		idxOf := DetName("mapidx", c)
		DeclareUF(keyAt, []*Sort{SInt}, ks)
		DeclareUF(idxOf, []*Sort{ks}, SInt)
		i := BVar("i!mr", SInt)
		k := BVar("k!mr", ks)
		st.AssumeDef(Ge(n, IntLit(0)))
		// enumeration is a bijection between [0,n) and the key set
		st.AssumeDef(Forall([]*Term{i}, Implies(And(Le(IntLit(0), i), Lt(i, n)), And(Select(MapHas(c), App(keyAt, i)), Eq(App(idxOf, App(keyAt, i)), i))), []*Term{App(keyAt, i)}))
		st.AssumeDef(Forall([]*Term{k}, Implies(Select(MapHas(c), k), And(Le(IntLit(0), App(idxOf, k)), Lt(App(idxOf, k), n), Eq(App(keyAt, App(idxOf, k)), k))), []*Term{App(idxOf, k)}))
		o := st.NewObj("mapiter", nil, IntLit(0))
		return &MapIterV{Obj: o, Map: c, N: n, KeyAt: keyAt, Key: mt.Key(), Elt: mt.Elem()}
	}
	ex.unsupp("range over %s", x.X.Type())
	return &OpaqueV{"range"}
}

func (ex *Exec) rangeNext(fr *Frame, x *ssa.Next, st *State) Val {
	it, ok := ex.val(fr, x.Iter, st).(*MapIterV)
	if !ok {
		ex.unsupp("next on non-map iterator")
		return &TupleV{Elems: []Val{False, IntLit(0), IntLit(0)}}
	}
	i := ex.content(st, it.Obj).(*Term)
	okk := Lt(i, it.N)
	k := App(it.KeyAt, i)
	v := Select(MapVals(it.Map), k)
	st.heap[it.Obj.id] = Ite(okk, Add(i, IntLit(1)), i)
	return &TupleV{Elems: []Val{okk, k, v}}
}

// ---------------------------------------------------------------- loops

type Loop struct {
	header  *ssa.BasicBlock
	body    map[*ssa.BasicBlock]bool
	ordinal int // 1-based, by source position of the header
}

type LoopInfo struct {
	byHeader map[*ssa.BasicBlock]*Loop
	list     []*Loop
}

func (ex *Exec) loops(fn *ssa.Function) *LoopInfo {
	if li, ok := ex.loopInfo[fn]; ok {
		return li
	}
	li := &LoopInfo{byHeader: map[*ssa.BasicBlock]*Loop{}}
	for _, b := range fn.Blocks {
		for _, s := range b.Succs {
			if s.Dominates(b) {
				lp := li.byHeader[s]
				if lp == nil {
					lp = &Loop{header: s, body: map[*ssa.BasicBlock]bool{s: true}}
					li.byHeader[s] = lp
					li.list = append(li.list, lp)
				}
				// natural loop of back edge b->s
				var stack []*ssa.BasicBlock
				if !lp.body[b] {
					lp.body[b] = true
					stack = append(stack, b)
				}
				for len(stack) > 0 {
					n := stack[len(stack)-1]
					stack = stack[:len(stack)-1]
					for _, p := range n.Preds {
						if !lp.body[p] {
							lp.body[p] = true
							stack = append(stack, p)
						}
					}
				}
			}
		}
	}
	sort.Slice(li.list, func(i, j int) bool { return blockPos(li.list[i].header) < blockPos(li.list[j].header) })
	for i, l := range li.list {
		l.ordinal = i + 1
	}
	ex.loopInfo[fn] = li
	return li
}

func blockPos(b *ssa.BasicBlock) token.Pos {
	best := token.NoPos
	var scan func(bb *ssa.BasicBlock)
	scan = func(bb *ssa.BasicBlock) {
		for _, in := range bb.Instrs {
			if p := in.Pos(); p.IsValid() && (best == token.NoPos || p < best) {
				best = p
			}
		}
	}
	scan(b)
	if best == token.NoPos {
		for _, s := range b.Succs {
			scan(s)
		}
	}
	if best == token.NoPos {
		return token.Pos(b.Index)
	}
	return best
}

// enterLoopHeader is called whenever control reaches a loop header at instruction 0.
// It returns cont=false when the path ends here (back edge of a cut loop).
func (ex *Exec) enterLoopHeader(fr *Frame, lp *Loop, st *State) (bool, []Result) {
	h := lp.header
	if fr.cut[h] {
		// back edge: establish the invariant again, path ends
		ex.checkInvariants(fr, lp, st, "preserve")
		ex.checkSteps(fr, lp, st)
		if ex.specMode == 0 && fr.fn == ex.topFn {
			ex.covers = append(ex.covers, &ObRecord{Name: fmt.Sprintf("%s#cover:loop%d.backedge", ex.fnPrefix, lp.ordinal), Kind: "cover", PC: st.PC(), Cond: True})
		}
		return false, nil
	}
	inv := ex.invariantsFor(fr, lp)
	if len(inv) == 0 && ex.canUnroll(fr, lp, st) {
		fr.unroll[h]++
		if fr.unroll[h] > maxUnroll {
			ex.unsupp("loop %d of %s unrolled more than %d times", lp.ordinal, fr.fn.Name(), maxUnroll)
			return false, nil
		}
		return true, nil
	}
	if fr.prev != nil && lp.body[fr.prev] && fr.unroll[h] > 0 {
		// was unrolling, now symbolic: fall through to cut from here
	}
	// first arrival: init obligations, havoc, assume
	fr.loopEntry[h] = st.Clone()
	ex.checkInvariants(fr, lp, st, "init")
	ex.havocLoop(fr, lp, st)
	for _, iv := range inv {
		c := ex.evalInvariant(fr, lp, iv, st)
		st.Assume(c)
	}
	// an arbitrary iteration starts here: calls of earlier iterations are not part of its history
	if st.calls != nil {
		for b := range lp.body {
			for _, in := range b.Instrs {
				if c, ok := in.(ssa.CallInstruction); ok {
					if callee := c.Common().StaticCallee(); callee != nil {
						delete(st.calls, callee.Name())
					}
				}
			}
		}
	}
	fr.loopPrev[h] = st.Clone()
	fr.cut[h] = true
	return true, nil
}

// canUnroll: the loop condition at the header is concretely decidable in the current state.
func (ex *Exec) canUnroll(fr *Frame, lp *Loop, st *State) bool {
	h := lp.header
	// evaluate the header block on a scratch copy
	iff, ok := h.Instrs[len(h.Instrs)-1].(*ssa.If)
	if !ok {
		return false
	}
	for _, in := range h.Instrs {
		switch in.(type) {
		case *ssa.Call, *ssa.Store, *ssa.MapUpdate, *ssa.Alloc, *ssa.Next:
			// side effects in the header: try anyway on a clone
		}
	}
	st2 := st.Clone()
	fr2 := fr.clone()
	save := ex.specMode
	ex.specMode++
	defer func() { ex.specMode = save }()
	okk := true
	func() {
		defer func() {
			if r := recover(); r != nil {
				okk = false
			}
		}()
		for _, in := range h.Instrs[:len(h.Instrs)-1] {
			if _, isCall := in.(*ssa.Call); isCall {
				okk = false
				return
			}
			if _, isPhi := in.(*ssa.Phi); isPhi {
				okk = false
				return
			}
			ex.step(fr2, in, st2)
		}
	}()
	if !okk {
		return false
	}
	c, isT := ex.val(fr2, iff.Cond, st2).(*Term)
	return isT && (c == True || c == False)
}

func (ex *Exec) checkInvariants(fr *Frame, lp *Loop, st *State, phase string) {
	for _, iv := range ex.invariantsFor(fr, lp) {
		ex.invUnbound = false
		c := ex.evalInvariant(fr, lp, iv, st)
		if ex.invUnbound {
			c = False
		}
		if os.Getenv("ICSVC_DEBUG_INV") != "" && ex.specMode == 0 && iv.Label == os.Getenv("ICSVC_DEBUG_INV") {
			w := ""
			for id, ww := range st.worlds {
				w += fmt.Sprintf(" w%d:S#%d(%s)", id, ww.S.id, ww.S.Op)
			}
			fmt.Fprintf(os.Stderr, "inv %s %s: cond dag=%d true=%v pc=%d pcFalse=%v worlds:%s\n", phase, iv.Label, dagSize(c), c == True, len(st.pc), st.PC() == False, w)
		}
		name := fmt.Sprintf("%s#loop%d.%s", ex.obPrefixFor(fr), lp.ordinal, phase)
		if iv.Label != "" {
			name += ":" + iv.Label
		}
		kind := "loop." + phase
		if iv.Stretch {
			kind = "stretch"
		}
		ex.oblige(st, kind, name, c, lp.header.Instrs[0].Pos())
	}
}

// checkSteps: per-iteration postconditions (`loop N step`), checked at every back edge of a cut loop.
func (ex *Exec) checkSteps(fr *Frame, lp *Loop, st *State) {
	if ex.specMode > 0 || fr.fn != ex.topFn || len(ex.recorders) > 0 || fr.loopPrev[lp.header] == nil {
		return // step clauses are obligations of the function under verification only
	}
	ct := fr.contract
	if ct == nil {
		ct = ex.lookupContract(fr.fn)
	}
	if ct == nil || ct.Loops[lp.ordinal] == nil {
		return
	}
	for _, sc := range ct.Loops[lp.ordinal].Steps {
		ex.invUnbound = false
		c := ex.evalInvariant(fr, lp, sc, st)
		if ex.invUnbound {
			c = False
		}
		name := fmt.Sprintf("%s#loop%d.step", ex.obPrefixFor(fr), lp.ordinal)
		if sc.Label != "" {
			name += ":" + sc.Label
		}
		kind := "loop.step"
		if sc.Stretch {
			kind = "stretch"
		}
		ex.oblige(st, kind, name, c, lp.header.Instrs[0].Pos())
	}
}

func (ex *Exec) obPrefixFor(fr *Frame) string {
	return ex.fnPrefix
}

// havocLoop forgets everything the loop body may modify.
func (ex *Exec) havocLoop(fr *Frame, lp *Loop, st *State) {
	touchWorld := false
	touched := map[int]bool{} // worlds reachable from the contexts passed to state-changing calls
	allWorlds := false
	noteCtx := func(c *ssa.CallCommon) {
		found := false
		vals := append([]ssa.Value{}, c.Args...)
		if c.IsInvoke() {
			vals = append(vals, c.Value)
		}
		for _, a := range vals {
			var v Val
			for {
				if mi, ok := a.(*ssa.MakeInterface); ok {
					a = mi.X
				} else if ci, ok := a.(*ssa.ChangeInterface); ok {
					a = ci.X
				} else if ct, ok := a.(*ssa.ChangeType); ok {
					a = ct.X
				} else {
					break
				}
			}
			if x, ok := fr.env[a]; ok {
				v = x
			} else if u, ok := a.(*ssa.UnOp); ok && u.Op == token.MUL {
				if al, ok := u.X.(*ssa.Alloc); ok {
					if p, ok := fr.env[al].(*PtrV); ok {
						if c, has := st.heap[p.Obj.id]; has {
							v = c
						}
					}
				}
			}
			switch q := v.(type) {
			case *CtxV:
				touched[q.World] = true
				found = true
			case *StoreV:
				touched[q.World] = true
				found = true
			case *IfaceV:
				if cc := ex.ctxOf(q); cc != nil {
					touched[cc.World] = true
					found = true
				}
			}
		}
		if !found {
			allWorlds = true
			if os.Getenv("ICSVC_DEBUG_HAVOC") != "" {
				fmt.Fprintf(os.Stderr, "havoc: loop %d of %s: no ctx found for call %s\n", lp.ordinal, fr.fn.Name(), calleeName(c))
			}
		}
	}
	havocObj := map[int]*Obj{}
	cells := map[*ssa.Alloc]bool{}
	var visitAddr func(v ssa.Value)
	visitAddr = func(v ssa.Value) {
		switch a := v.(type) {
		case *ssa.Alloc:
			if !lp.body[a.Block()] {
				cells[a] = true
			}
		case *ssa.FieldAddr:
			visitAddr(a.X)
		case *ssa.IndexAddr:
			// backing store of the slice / array
			switch bx := a.X.(type) {
			case *ssa.UnOp: // load of a slice from somewhere
				if bx.Op == token.MUL && !lp.body[bx.Block()] {
					if sv, ok := fr.env[bx].(*SliceV); ok {
						havocObj[sv.Obj.id] = sv.Obj
					}
				} else if bx.Op == token.MUL {
					// loaded inside the loop from a cell: havoc backing of the current cell content
					if al, ok := bx.X.(*ssa.Alloc); ok {
						if p, ok := fr.env[al].(*PtrV); ok {
							if sv, ok := ex.content(st, p.Obj).(*SliceV); ok {
								havocObj[sv.Obj.id] = sv.Obj
							} else if _, isT := ex.content(st, p.Obj).(*Term); isT {
								cells[al] = true
							}
						}
					} else if fv, ok := bx.X.(*ssa.FreeVar); ok {
						if p, ok := fr.env[fv].(*PtrV); ok {
							if sv, ok := ex.content(st, p.Obj).(*SliceV); ok {
								havocObj[sv.Obj.id] = sv.Obj
							}
						}
					}
				}
			default:
				if pv, ok := fr.env[a.X]; ok {
					switch q := pv.(type) {
					case *SliceV:
						havocObj[q.Obj.id] = q.Obj
					case *PtrV:
						havocObj[q.Obj.id] = q.Obj
					}
				} else {
					visitAddr(a.X)
				}
			}
		case *ssa.UnOp:
			// store through a pointer loaded from a cell
			if pv, ok := fr.env[a]; ok {
				if q, ok := pv.(*PtrV); ok {
					havocObj[q.Obj.id] = q.Obj
				}
			}
		case *ssa.FreeVar, *ssa.Parameter:
			if pv, ok := fr.env[a]; ok {
				if q, ok := pv.(*PtrV); ok {
					havocObj[q.Obj.id] = q.Obj
				}
			}
		}
	}
	for b := range lp.body {
		for _, in := range b.Instrs {
			switch x := in.(type) {
			case *ssa.Store:
				visitAddr(x.Addr)
			case *ssa.MapUpdate:
				if u, ok := x.Map.(*ssa.UnOp); ok {
					if al, ok := u.X.(*ssa.Alloc); ok {
						if p, ok := fr.env[al].(*PtrV); ok {
							if mv, ok := ex.content(st, p.Obj).(*MapV); ok {
								havocObj[mv.Obj.id] = mv.Obj
							}
						}
					}
				} else if mv, ok := fr.env[x.Map].(*MapV); ok {
					havocObj[mv.Obj.id] = mv.Obj
				}
			case *ssa.Next:
				if it, ok := fr.env[x.Iter].(*MapIterV); ok {
					havocObj[it.Obj.id] = it.Obj
				}
			case ssa.CallInstruction:
				eff := ex.callEffects(fr, x.Common())
				if eff.world {
					touchWorld = true
					noteCtx(x.Common())
				}
				if eff.iter {
					// iterator advanced: havoc the iterator objects passed / invoked on
					for _, a := range x.Common().Args {
						if it, ok := fr.env[a].(*IterV); ok {
							havocObj[it.Obj.id] = it.Obj
						}
					}
					if x.Common().IsInvoke() {
						ex.collectIterObjs(fr, st, x.Common().Value, havocObj)
					}
				}
				if eff.ptrArgs {
					for _, a := range x.Common().Args {
						switch q := fr.env[a].(type) {
						case *PtrV:
							havocObj[q.Obj.id] = q.Obj
						case *SliceV:
							havocObj[q.Obj.id] = q.Obj
						case *MapV:
							havocObj[q.Obj.id] = q.Obj
						case *ByteSlV:
							havocObj[q.Obj.id] = q.Obj
						}
						// pointers/slices held in cells that are loaded inside the loop
						if u, ok := a.(*ssa.UnOp); ok && u.Op == token.MUL {
							if al, ok := u.X.(*ssa.Alloc); ok {
								if p, ok := fr.env[al].(*PtrV); ok {
									switch q := ex.content(st, p.Obj).(type) {
									case *PtrV:
										havocObj[q.Obj.id] = q.Obj
									case *SliceV:
										havocObj[q.Obj.id] = q.Obj
									case *MapV:
										havocObj[q.Obj.id] = q.Obj
									case *ByteSlV:
										havocObj[q.Obj.id] = q.Obj
									}
								}
							}
						}
						if al, ok := a.(*ssa.Alloc); ok && !lp.body[al.Block()] {
							cells[al] = true
						}
					}
				}
			}
		}
	}
	for al := range cells {
		p, ok := fr.env[al].(*PtrV)
		if !ok {
			continue
		}
		cur := ex.content(st, p.Obj)
		et := al.Type().(*types.Pointer).Elem()
		switch c := cur.(type) {
		case *Term:
			nv := Fresh("hv_"+al.Comment, c.Sort)
			ex.typeInvariant(st, nv, et, 0)
			st.heap[p.Obj.id] = nv
		case *SliceV:
			arr := ex.content(st, c.Obj).(*Term)
			o := st.NewObj("hvbacking", nil, Fresh("hvarr_"+al.Comment, arr.Sort))
			n := Fresh("hvlen_"+al.Comment, SInt)
			st.Assume(Ge(n, IntLit(0)))
			nl := Fresh("hvnil_"+al.Comment, SBool)
			st.Assume(Implies(nl, Eq(n, IntLit(0))))
			st.heap[p.Obj.id] = &SliceV{Obj: o, Off: IntLit(0), Len: n, Elem: c.Elem, Nil: nl}
		case *ByteSlV:
			st.heap[p.Obj.id] = Fresh("hvbytes_"+al.Comment, SBytes)
		case *TupleV, *CtxV, *StoreV, *FuncV, *OpaqueV, *IterV, *MapV, *MapIterV:
			// reassigned handles: keep (they are re-created inside the body before use) — flagged if used across iterations
			ex.warn("loop %d of %s reassigns handle cell %s", lp.ordinal, fr.fn.Name(), al.Comment)
		case *PtrV:
			ex.unsupp("loop %d of %s reassigns pointer variable %s", lp.ordinal, fr.fn.Name(), al.Comment)
		case *IfaceV:
			ex.warn("loop %d of %s reassigns interface cell %s", lp.ordinal, fr.fn.Name(), al.Comment)
		}
	}
	for _, o := range havocObj {
		cur := ex.content(st, o)
		switch c := cur.(type) {
		case *Term:
			nv := Fresh("hvobj_"+o.name, c.Sort)
			if o.typ != nil {
				ex.typeInvariant(st, nv, o.typ, 0)
			}
			if o.name == "iter" || o.name == "mapiter" {
				st.Assume(Ge(nv, IntLit(0)))
			}
			st.heap[o.id] = nv
		}
	}
	if touchWorld {
		olds := map[int]*World{}
		for id, w := range st.worlds {
			if !allWorlds && !touched[id] {
				continue
			}
			olds[id] = w
			st.worlds[id] = &World{S: Fresh("hvS", SStore), X: Fresh("hvX", SXState), E: Fresh("hvE", w.E.Sort)}
		}
		// discover what one arbitrary iteration writes (from the fully havocked state) and keep the rest framed
		rec := ex.discover(func() {
			st2 := st.Clone()
			fr2 := fr.clone()
			fr2.cut[lp.header] = true
			ex.discoveryRun(fr2, lp, st2)
		})
		for id, old := range olds {
			ws := rec.byWorld[id]
			if rec.byWorld[-1] != nil {
				ws = rec.byWorld[-1]
			}
			if ws == nil {
				ws = &WriteSet{fams: map[int]bool{}}
			}
			ex.frameFor(st, old, st.worlds[id], ws)
		}
	}
}

// discoveryRun executes one arbitrary iteration of the loop (header first) on a scratch state.
func (ex *Exec) discoveryRun(fr *Frame, lp *Loop, st *State) {
	// skip the header's own loop handling: start after marking it cut; runFrom at idx 0 would treat arrival as a back edge
	ex.runBody(fr, lp.header, st)
}

func (ex *Exec) collectIterObjs(fr *Frame, st *State, v ssa.Value, out map[int]*Obj) {
	if it, ok := fr.env[v].(*IterV); ok {
		out[it.Obj.id] = it.Obj
		return
	}
	if u, ok := v.(*ssa.UnOp); ok && u.Op == token.MUL {
		if al, ok := u.X.(*ssa.Alloc); ok {
			if p, ok := fr.env[al].(*PtrV); ok {
				if it, ok := ex.content(st, p.Obj).(*IterV); ok {
					out[it.Obj.id] = it.Obj
				}
			}
		}
	}
}


// ---------------------------------------------------------------- join points (state merging)

type joinInfo struct {
	ipdom map[*ssa.BasicBlock]*ssa.BasicBlock
}

// joinOf returns the immediate post-dominator of b (the block where the two arms of b's branch meet), or nil.
func (ex *Exec) joinOf(fn *ssa.Function, b *ssa.BasicBlock) *ssa.BasicBlock {
	if ex.noMerge {
		return nil
	}
	ji, ok := ex.joins[fn]
	if !ok {
		ji = computeJoins(fn)
		ex.joins[fn] = ji
	}
	j := ji.ipdom[b]
	if j == nil {
		return nil
	}
	// a loop header with phi nodes needs per-predecessor handling on arrival
	if lp := ex.loops(fn).byHeader[j]; lp != nil {
		if len(j.Instrs) > 0 {
			if _, isPhi := j.Instrs[0].(*ssa.Phi); isPhi {
				return nil
			}
		}
	}
	return j
}

func computeJoins(fn *ssa.Function) *joinInfo {
	// join of a two-way branch at b: the block reachable from both arms (ignoring back edges and ignoring paths
	// that leave through return/panic) that is dominated by b and dominates every other such block.
	ji := &joinInfo{ipdom: map[*ssa.BasicBlock]*ssa.BasicBlock{}}
	reach := func(start *ssa.BasicBlock) map[*ssa.BasicBlock]bool {
		seen := map[*ssa.BasicBlock]bool{}
		stack := []*ssa.BasicBlock{start}
		for len(stack) > 0 {
			n := stack[len(stack)-1]
			stack = stack[:len(stack)-1]
			if seen[n] {
				continue
			}
			seen[n] = true
			for _, sx := range n.Succs {
				if sx.Dominates(n) {
					continue // back edge
				}
				stack = append(stack, sx)
			}
		}
		return seen
	}
	for _, b := range fn.Blocks {
		if len(b.Succs) != 2 {
			continue
		}
		if b.Succs[0].Dominates(b) || b.Succs[1].Dominates(b) {
			continue // one arm is a back edge
		}
		r0, r1 := reach(b.Succs[0]), reach(b.Succs[1])
		var cands []*ssa.BasicBlock
		for x := range r0 {
			if r1[x] && x != b && b.Dominates(x) {
				cands = append(cands, x)
			}
		}
		for _, x := range cands {
			ok := true
			for _, y := range cands {
				if y != x && !x.Dominates(y) {
					ok = false
					break
				}
			}
			if ok {
				ji.ipdom[b] = x
				break
			}
		}
	}
	return ji
}

type mergedArrival struct {
	fr  *Frame
	st  *State
	idx int
}

// mergeArrivals joins the states that reached join block j from the two arms of a branch.
// Leading phi nodes of j are evaluated per arrival first. States that cannot be merged continue separately.
func (ex *Exec) mergeArrivals(base int, j *ssa.BasicBlock, arrivals []Result) []mergedArrival {
	nphi := 0
	for _, in := range j.Instrs {
		if _, ok := in.(*ssa.Phi); ok {
			nphi++
		} else {
			break
		}
	}
	for _, r := range arrivals {
		for k := 0; k < nphi; k++ {
			ex.step(r.fr, j.Instrs[k], r.st)
		}
	}
	separate := func() []mergedArrival {
		var out []mergedArrival
		for _, r := range arrivals {
			out = append(out, mergedArrival{r.fr, r.st, nphi})
		}
		return out
	}
	if len(arrivals) <= 1 {
		return separate()
	}
	conds := make([]*Term, len(arrivals))
	for k, r := range arrivals {
		if len(r.st.pc) < base {
			return separate()
		}
		conds[k] = And(r.st.pc[base:]...)
	}
	first := arrivals[0]
	m := &State{pc: append([]*Term(nil), first.st.pc[:base]...), heap: map[int]Val{}, worlds: map[int]*World{}, optObj: map[int]*Obj{}, depth: first.st.depth}
	m.pc = append(m.pc, Or(conds...))
	for _, r := range arrivals {
		for _, d := range r.st.defs {
			m.AssumeDef(d)
		}
		for k, v := range r.st.optObj {
			m.optObj[k] = v
		}
	}
	var mergeVals func(vals []Val, present []bool) (Val, bool)
	mergeVals = func(vals []Val, present []bool) (Val, bool) {
		var acc Val
		accK := -1
		set := false
		for k := len(vals) - 1; k >= 0; k-- {
			if !present[k] {
				continue
			}
			v := vals[k]
			if !set {
				acc, set, accK = v, true, k
				continue
			}
			if v == acc || structEqVal(v, acc) {
				continue
			}
			t1, ok1 := v.(*Term)
			t2, ok2 := acc.(*Term)
			if ok1 && ok2 && t1.Sort == t2.Sort {
				acc = Ite(conds[k], t1, t2)
				continue
			}
			s1, ok1 := v.(*SliceV)
			s2, ok2 := acc.(*SliceV)
			if ok1 && ok2 && s1.Obj == s2.Obj {
				acc = &SliceV{Obj: s1.Obj, Off: Ite(conds[k], s1.Off, s2.Off), Len: Ite(conds[k], s1.Len, s2.Len), Elem: s1.Elem, Nil: Ite(conds[k], s1.IsNil(), s2.IsNil())}
				continue
			}
			if ok1 && ok2 && s1.Elem != nil && !isByteElem(s1.Elem) {
				// different backing arrays: snapshot both and continue with a fresh object
				st2 := arrivals[accK].st
				if _, has := st2.heap[s2.Obj.id]; !has {
					// acc was already re-wrapped into the merged heap
					st2 = m
				}
				if _, has := st2.heap[s2.Obj.id]; !has {
					return nil, false
				}
				sl := types.NewSlice(s1.Elem)
				a1 := ex.asTerm(arrivals[k].st, s1, sl)
				a2 := ex.asTerm(st2, s2, sl)
				for _, d := range arrivals[k].st.defs {
					m.AssumeDef(d)
				}
				if a1.Sort != a2.Sort {
					return nil, false
				}
				t := Ite(conds[k], a1, a2)
				o := m.NewObj("merged-slice", nil, SlArr(t))
				acc = &SliceV{Obj: o, Off: IntLit(0), Len: SlLen(t), Elem: s1.Elem, Nil: SlIsNil(t)}
				continue
			}
			c1, ok1 := v.(*CtxV)
			c2, ok2 := acc.(*CtxV)
			if ok1 && ok2 && c1.World == c2.World {
				acc = &CtxV{World: c1.World, Time: Ite(conds[k], c1.Time, c2.Time), Height: Ite(conds[k], c1.Height, c2.Height), Chain: Ite(conds[k], c1.Chain, c2.Chain)}
				continue
			}
			tu1, ok1 := v.(*TupleV)
			tu2, ok2 := acc.(*TupleV)
			if ok1 && ok2 && len(tu1.Elems) == len(tu2.Elems) {
				nt := &TupleV{}
				okAll := true
				for i := range tu1.Elems {
					a, b := tu1.Elems[i], tu2.Elems[i]
					if a == b || structEqVal(a, b) {
						nt.Elems = append(nt.Elems, a)
						continue
					}
					x, okx := a.(*Term)
					y, oky := b.(*Term)
					if okx && oky && x.Sort == y.Sort {
						nt.Elems = append(nt.Elems, Ite(conds[k], x, y))
						continue
					}
					okAll = false
				}
				if okAll {
					acc = nt
					continue
				}
			}
			if os.Getenv("ICSVC_DEBUG_MERGE") != "" {
				fmt.Fprintf(os.Stderr, "unmergeable at %s b%d: %s vs %s\n", first.fr.fn.Name(), j.Index, describeVal(v), describeVal(acc))
			}
			return nil, false
		}
		return acc, true
	}
	// heap
	ids := map[int]bool{}
	for _, r := range arrivals {
		for id := range r.st.heap {
			ids[id] = true
		}
	}
	for id := range ids {
		vals := make([]Val, len(arrivals))
		pres := make([]bool, len(arrivals))
		for k, r := range arrivals {
			vals[k], pres[k] = r.st.heap[id]
		}
		v, ok := mergeVals(vals, pres)
		if !ok {
			return separate()
		}
		m.heap[id] = v
	}
	// worlds
	wids := map[int]bool{}
	for _, r := range arrivals {
		for id := range r.st.worlds {
			wids[id] = true
		}
	}
	for id := range wids {
		var acc *World
		for k := len(arrivals) - 1; k >= 0; k-- {
			w := arrivals[k].st.worlds[id]
			if w == nil {
				continue
			}
			if acc == nil {
				c := *w
				acc = &c
				continue
			}
			acc = &World{S: Ite(conds[k], w.S, acc.S), X: Ite(conds[k], w.X, acc.X), E: Ite(conds[k], w.E, acc.E)}
		}
		m.worlds[id] = acc
	}
	// environment: values defined before the branch or by the phis of j
	fr := first.fr.clone()
	keys := map[ssa.Value]bool{}
	for _, r := range arrivals {
		for v := range r.fr.env {
			keys[v] = true
		}
	}
	for v := range keys {
		vals := make([]Val, len(arrivals))
		pres := make([]bool, len(arrivals))
		all := true
		for k, r := range arrivals {
			vals[k], pres[k] = r.fr.env[v]
			if !pres[k] {
				all = false
			}
		}
		if !all {
			delete(fr.env, v) // defined in one arm only: dead after the join (SSA dominance)
			continue
		}
		mv, ok := mergeVals(vals, pres)
		if !ok {
			// a value defined inside the arms that is not used after the join does not matter; one defined before
			// the branch is identical in all arrivals. Anything else makes the states unmergeable.
			if in, isInstr := v.(ssa.Instruction); isInstr && in.Block() != nil && !in.Block().Dominates(j) {
				delete(fr.env, v)
				continue
			}
			return separate()
		}
		fr.env[v] = mv
	}
	// ghost call history: records become conditional
	for k, r := range arrivals {
		for name, recs := range r.st.calls {
			for _, rec := range recs {
				rc := rec
				if rc.St == nil {
					rc.St = r.st
				}
				// records made before the branch are shared: keep them once
				shared := true
				for _, o := range arrivals {
					found := false
					for _, orc := range o.st.calls[name] {
						if len(orc.Args) == len(rec.Args) && sameVals(orc.Args, rec.Args) && orc.Ret == rec.Ret && orc.Cond == rec.Cond {
							found = true
						}
					}
					if !found {
						shared = false
					}
				}
				if shared {
					if k == 0 {
						if m.calls == nil {
							m.calls = map[string][]CallRec{}
						}
						m.calls[name] = append(m.calls[name], rc)
					}
					continue
				}
				if rc.Cond == nil {
					rc.Cond = conds[k]
				} else {
					rc.Cond = And(rc.Cond, conds[k])
				}
				if m.calls == nil {
					m.calls = map[string][]CallRec{}
				}
				m.calls[name] = append(m.calls[name], rc)
			}
		}
	}
	fr.prev = first.fr.prev
	return []mergedArrival{{fr, m, nphi}}
}

// structEqVal: structural equality of executor-level handles.
func structEqVal(a, b Val) bool {
	switch x := a.(type) {
	case *PtrV:
		y, ok := b.(*PtrV)
		if !ok || x.Obj != y.Obj || len(x.Path) != len(y.Path) {
			return false
		}
		for i := range x.Path {
			if x.Path[i].Field != y.Path[i].Field || x.Path[i].Index != y.Path[i].Index {
				return false
			}
		}
		return true
	case *StoreV:
		y, ok := b.(*StoreV)
		return ok && x.World == y.World && x.Prefix == y.Prefix
	case *OpaqueV:
		y, ok := b.(*OpaqueV)
		return ok && x.What == y.What
	case *IterV:
		y, ok := b.(*IterV)
		return ok && x.Obj == y.Obj
	case *MapV:
		y, ok := b.(*MapV)
		return ok && x.Obj == y.Obj
	case *ByteSlV:
		y, ok := b.(*ByteSlV)
		return ok && x.Obj == y.Obj
	case *MapIterV:
		y, ok := b.(*MapIterV)
		return ok && x.Obj == y.Obj
	case *IfaceV:
		y, ok := b.(*IfaceV)
		return ok && (x.V == y.V || structEqVal(x.V, y.V))
	case *CtxV:
		y, ok := b.(*CtxV)
		return ok && x.World == y.World && x.Time == y.Time && x.Height == y.Height && x.Chain == y.Chain
	case *FuncV:
		y, ok := b.(*FuncV)
		if !ok || x.Fn != y.Fn || x.Builtin != y.Builtin || len(x.Bindings) != len(y.Bindings) || len(x.Data) != len(y.Data) {
			return false
		}
		for i := range x.Bindings {
			if x.Bindings[i] != y.Bindings[i] && !structEqVal(x.Bindings[i], y.Bindings[i]) {
				return false
			}
		}
		for i := range x.Data {
			if x.Data[i] != y.Data[i] && !structEqVal(x.Data[i], y.Data[i]) {
				return false
			}
		}
		return true
	case *SliceV:
		y, ok := b.(*SliceV)
		return ok && x.Obj == y.Obj && x.Off == y.Off && x.Len == y.Len && x.IsNil() == y.IsNil()
	case nil:
		return b == nil
	}
	return false
}

func sameVals(a, b []Val) bool {
	for i := range a {
		if a[i] != b[i] {
			return false
		}
	}
	return true
}

func isCoinsLike(t types.Type) bool {
	if n, ok := types.Unalias(t).(*types.Named); ok {
		qn := qualName(n)
		return qn == "github.com/cosmos/cosmos-sdk/types.Coins" || qn == "github.com/cosmos/cosmos-sdk/types.DecCoins"
	}
	return false
}

// loopTag names the innermost loop of the function under verification that contains the instruction at pos
// ("" outside loops and for inlined callee code): overflow obligations are grouped per loop so that the
// straight-line part of a function can be claimed independently of loops that still lack arithmetic invariants.
func (ex *Exec) loopTag(pos token.Pos, sep string) string {
	if ex.topFn == nil || !pos.IsValid() {
		return ""
	}
	if ex.loopOfPos == nil {
		ex.loopOfPos = map[token.Pos]int{}
		size := map[int]int{}
		li := ex.loops(ex.topFn)
		for _, lp := range li.list {
			size[lp.ordinal] = len(lp.body)
		}
		for _, lp := range li.list {
			for b := range lp.body {
				for _, in := range b.Instrs {
					if p := in.Pos(); p.IsValid() {
						if cur, ok := ex.loopOfPos[p]; !ok || size[lp.ordinal] < size[cur] {
							ex.loopOfPos[p] = lp.ordinal
						}
					}
				}
			}
		}
	}
	if n, ok := ex.loopOfPos[pos]; ok {
		return fmt.Sprintf("%sloop%d", sep, n)
	}
	return ""
}
