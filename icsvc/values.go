package main

// Executor-level values and the symbolic state.

import (
	"fmt"
	"go/types"

	"golang.org/x/tools/go/ssa"
)

type Val interface{}

type Obj struct {
	id   int
	name string
	typ  types.Type // type of the content
}

type PathElem struct {
	Field int   // -1 if index
	Index *Term // nil if field
}

// PtrV: reference to (a part of) a heap object.
type PtrV struct {
	Obj  *Obj
	Path []PathElem
}

// SliceV: slice header over a backing array object (content: Array Int Elem term).
type SliceV struct {
	Obj  *Obj
	Off  *Term
	Len  *Term
	Elem types.Type
	Nil  *Term // nil-ness (nil => Len == 0); nil pointer means False
}

func (s *SliceV) IsNil() *Term {
	if s.Nil == nil {
		return False
	}
	return s.Nil
}

// MapV: reference to a map object (content: Map datatype term).
type MapV struct {
	Obj *Obj
	Key types.Type
	Elt types.Type
}

// ByteSlV: a mutable []byte object (content: Bytes term).
type ByteSlV struct {
	Obj *Obj
}

type FuncV struct {
	Fn       *ssa.Function
	Bindings []Val
	Builtin  string // non-empty: executor builtin closure (e.g. cache write-back)
	Data     []Val
	Recv     Val // bound method receiver
	Sig      *types.Signature
}

type TupleV struct{ Elems []Val }

// CtxV: sdk.Context value.
type CtxV struct {
	World  int
	Time   *Term
	Height *Term
	Chain  *Term
}

// StoreV: KVStore handle.
type StoreV struct {
	World  int
	Prefix *Term // nil or Bytes prefix (prefix.NewStore)
}

// IfaceV: an interface value whose dynamic value is known to the executor.
type IfaceV struct {
	Dyn types.Type
	V   Val
}

// IterV: store iterator.
type IterV struct {
	Obj *Obj // content: Int term (current index)
	It  *IterInfo
}

type IterInfo struct {
	Store  *Term // snapshot
	N      *Term
	KeyAt  string // UF name Int -> Bytes
	IdxOf  string // UF name Bytes -> Int
	Prefix *Term
	Start, End *Term
	Reverse bool
}

// MapIterV: range over a map
type MapIterV struct {
	Obj   *Obj // content: Int term (current index)
	Map   *Term
	N     *Term
	KeyAt string
	Key, Elt types.Type
}

// OpaqueV: values we do not model (loggers, event managers, codecs...)
type OpaqueV struct{ What string }

type World struct {
	S *Term // Array Bytes Bytes
	X *Term // external state token
	E *Term // effect log
}

var (
	SStore  = ArraySort(SBytes, SBytes)
	SXState = UninterpSort("XState")
	SEffect = UninterpSort("Effect")
	elogDT  *DTDecl
)

func init() {
	elogDT = NewDT("ELog")
	elogDT.Cons = []DTCons{{Name: "enil"}, {Name: "econs", Fields: []DTField{{"ELog.hd", SEffect}, {"ELog.tl", elogDT.Sort}}}}
}

func ECons(e, l *Term) *Term { return Cons(elogDT, 1, e, l) }

type State struct {
	pc     []*Term
	defs   []*Term // definitional facts about fresh symbols (conservative extensions)
	defSet map[int]bool
	heap   map[int]Val
	worlds map[int]*World
	optObj map[int]*Obj // pointer term id -> materialised object
	ret    Val
	depth  int
	dead   bool
	calls  map[string][]CallRec // ghost history: last calls of repository functions (for wiring postconditions)
}

type CallRec struct {
	Args []Val
	Ret  Val
	Sig  *types.Signature
	Params []*types.Var
	Cond *Term // nil = unconditional; set when paths were merged at a join
	St   *State // state in which executor-level argument values can be converted to terms
}

func NewState() *State {
	return &State{heap: map[int]Val{}, worlds: map[int]*World{}, optObj: map[int]*Obj{}}
}

func (s *State) Clone() *State {
	n := &State{pc: append([]*Term(nil), s.pc...), defs: append([]*Term(nil), s.defs...), heap: make(map[int]Val, len(s.heap)), worlds: make(map[int]*World, len(s.worlds)), optObj: make(map[int]*Obj, len(s.optObj)), depth: s.depth}
	for k, v := range s.heap {
		n.heap[k] = v
	}
	for k, v := range s.worlds {
		w := *v
		n.worlds[k] = &w
	}
	for k, v := range s.optObj {
		n.optObj[k] = v
	}
	if s.calls != nil {
		n.calls = make(map[string][]CallRec, len(s.calls))
		for k, v := range s.calls {
			n.calls[k] = append([]CallRec(nil), v...)
		}
	}
	return n
}

func (s *State) Assume(t *Term) {
	if t == True {
		return
	}
	if t == False {
		s.dead = true
	}
	s.pc = append(s.pc, t)
}

func (s *State) AssumeDef(t *Term) {
	if t == True {
		return
	}
	for _, d := range s.defs {
		if d == t {
			return
		}
	}
	s.defs = append(s.defs, t)
}

func (s *State) PC() *Term { return And(append(append([]*Term{}, s.defs...), s.pc...)...) }

var objCounter int

func (s *State) NewObj(name string, typ types.Type, content Val) *Obj {
	objCounter++
	o := &Obj{id: objCounter, name: name, typ: typ}
	s.heap[o.id] = content
	return o
}

var worldCounter int

func (s *State) NewWorld(w World) int {
	worldCounter++
	ww := w
	s.worlds[worldCounter] = &ww
	return worldCounter
}

func describeVal(v Val) string {
	switch x := v.(type) {
	case nil:
		return "<nil>"
	case *Term:
		return "term:" + x.Sort.Name
	case *PtrV:
		return fmt.Sprintf("ptr(obj%d %s)", x.Obj.id, x.Obj.name)
	case *SliceV:
		return "slice"
	case *MapV:
		return "map"
	case *FuncV:
		if x.Fn != nil {
			return "func " + x.Fn.Name()
		}
		return "func builtin " + x.Builtin
	case *TupleV:
		return fmt.Sprintf("tuple%d", len(x.Elems))
	case *CtxV:
		return "ctx"
	case *StoreV:
		return "store"
	case *IfaceV:
		return "iface(" + describeVal(x.V) + ")"
	case *IterV:
		return "iter"
	case *OpaqueV:
		return "opaque " + x.What
	case *ByteSlV:
		return "byteslice"
	case *MapIterV:
		return "mapiter"
	}
	return fmt.Sprintf("%T", v)
}

// CallHist: ghost view of the calls of one function on the current path.
type CallHist struct {
	Name string
	Recs []CallRec
}
