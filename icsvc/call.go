package main

import (
	"fmt"
	"os"
	"go/token"
	"go/types"
	"strings"

	"golang.org/x/tools/go/ssa"
)

type effectSummary struct {
	world   bool // may write store / external state / effect log
	iter    bool // advances an iterator
	ptrArgs bool // may write through pointer / slice / map arguments
}

func isPBFile(ex *Exec, fn *ssa.Function) bool {
	if fn == nil || !fn.Pos().IsValid() {
		return false
	}
	f := ex.fset.Position(fn.Pos()).Filename
	if strings.HasSuffix(f, ".pb.go") || strings.HasSuffix(f, ".pb.gw.go") {
		// generated field getters are ordinary code and are inlined
		if strings.HasPrefix(fn.Name(), "Get") && fn.Signature.Params().Len() == 0 && fn.Blocks != nil {
			return false
		}
		return true
	}
	return false
}

func calleeName(c *ssa.CallCommon) string {
	if c.IsInvoke() {
		return "(" + types.TypeString(c.Value.Type(), nil) + ")." + c.Method.Name()
	}
	switch f := c.Value.(type) {
	case *ssa.Function:
		return f.String()
	case *ssa.Builtin:
		return "go:" + f.Name()
	}
	return ""
}

func (ex *Exec) fnEffects(fn *ssa.Function) *effectSummary {
	if s, ok := ex.pureCache[fn]; ok {
		return s
	}
	s := &effectSummary{}
	ex.pureCache[fn] = s // cycle guard (optimistic)
	if fn.Blocks == nil || isPBFile(ex, fn) {
		*s = ex.externalEffects(fn.String())
		return s
	}
	for _, b := range fn.Blocks {
		for _, in := range b.Instrs {
			switch x := in.(type) {
			case *ssa.Store:
				if !rootedAtLocal(x.Addr) {
					s.ptrArgs = true
				}
			case *ssa.MapUpdate:
				s.ptrArgs = true
			case ssa.CallInstruction:
				if _, isDefer := x.(*ssa.Defer); isDefer {
					continue
				}
				e := ex.commonEffects(x.Common())
				s.world = s.world || e.world
				s.iter = s.iter || e.iter
				s.ptrArgs = s.ptrArgs || e.ptrArgs
			}
		}
	}
	for _, af := range fn.AnonFuncs {
		e := ex.fnEffects(af)
		s.world = s.world || e.world
		s.ptrArgs = s.ptrArgs || e.ptrArgs
	}
	return s
}

func rootedAtLocal(v ssa.Value) bool {
	switch a := v.(type) {
	case *ssa.Alloc:
		return true
	case *ssa.FieldAddr:
		return rootedAtLocal(a.X)
	case *ssa.IndexAddr:
		if _, ok := a.X.Type().Underlying().(*types.Pointer); ok {
			return rootedAtLocal(a.X)
		}
		// slice element: local only if the slice was made locally — be conservative
		return false
	}
	return false
}

func (ex *Exec) commonEffects(c *ssa.CallCommon) effectSummary {
	name := calleeName(c)
	if c.IsInvoke() {
		return ex.externalEffects(name)
	}
	switch f := c.Value.(type) {
	case *ssa.Function:
		return *ex.fnEffects(f)
	case *ssa.Builtin:
		return effectSummary{}
	case *ssa.MakeClosure:
		return *ex.fnEffects(f.Fn.(*ssa.Function))
	}
	// call of a function value: unknown
	return effectSummary{world: true, ptrArgs: true}
}

func (ex *Exec) callEffects(fr *Frame, c *ssa.CallCommon) effectSummary {
	// resolve function values bound in the frame
	if !c.IsInvoke() {
		if _, isFn := c.Value.(*ssa.Function); !isFn {
			if _, isB := c.Value.(*ssa.Builtin); !isB {
				if fv, ok := fr.env[c.Value].(*FuncV); ok {
					if fv.Fn != nil {
						return *ex.fnEffects(fv.Fn)
					}
					if fv.Builtin == "cachewrite" {
						return effectSummary{world: true}
					}
				}
			}
		}
	}
	return ex.commonEffects(c)
}

var commandPrefixes = []string{"Set", "Delete", "Jail", "Unjail", "Tombstone", "Slash", "Send", "ChanClose", "Create", "Mint", "Burn", "Fund", "Allocate", "Transfer", "Write", "Bind", "Claim", "Update", "Remove", "Add", "Withdraw", "Delegate", "Undelegate", "Emit", "Increment", "Close"}

func isCommandName(m string) bool {
	for _, p := range commandPrefixes {
		if strings.HasPrefix(m, p) {
			return true
		}
	}
	return false
}

func (ex *Exec) externalEffects(name string) effectSummary {
	m := name
	if j := strings.LastIndex(name, "."); j >= 0 {
		m = name[j+1:]
	}
	switch {
	case strings.Contains(name, "store/types.KVStore)") || strings.Contains(name, "store/types.BasicKVStore)") || strings.Contains(name, "prefix.Store)"):
		if m == "Set" || m == "Delete" {
			return effectSummary{world: true}
		}
		return effectSummary{}
	case strings.Contains(name, "Iterator)"):
		if m == "Next" {
			return effectSummary{iter: true}
		}
		return effectSummary{}
	case strings.HasSuffix(name, ".MustUnmarshal") || strings.HasSuffix(name, ".Unmarshal") || strings.HasSuffix(name, ".UnmarshalJSON") || strings.HasSuffix(name, ".MustUnmarshalJSON") || strings.HasSuffix(name, "UnpackAny") || strings.HasSuffix(name, ".UnmarshalInterface") || strings.HasSuffix(name, ".UnmarshalBinary"):
		return effectSummary{ptrArgs: true}
	case strings.HasSuffix(name, "encoding/binary.bigEndian).PutUint64") || strings.HasSuffix(name, "encoding/binary.bigEndian).PutUint32"):
		return effectSummary{ptrArgs: true}
	case name == "sort.Slice" || name == "sort.SliceStable" || name == "sort.Strings" || name == "sort.Sort":
		return effectSummary{ptrArgs: true}
	}
	if isKeeperIfaceName(name) && isCommandName(m) {
		return effectSummary{world: true}
	}
	if strings.Contains(name, "types.EventManager") || strings.Contains(name, "log.Logger") {
		return effectSummary{}
	}
	return effectSummary{}
}

func isKeeperIfaceName(name string) bool {
	return strings.Contains(name, "Keeper)") || strings.Contains(name, "ICS4Wrapper)") || strings.Contains(name, "IBCModule)") || strings.Contains(name, "porttypes.") || strings.Contains(name, "Middleware)")
}

// ---------------------------------------------------------------- calls

func (ex *Exec) doCall(fr *Frame, call *ssa.Call, st *State) []Result {
	c := call.Common()
	var args []Val
	for _, a := range c.Args {
		args = append(args, ex.val(fr, a, st))
	}
	if c.IsInvoke() {
		recv := ex.val(fr, c.Value, st)
		// dynamic dispatch on known concrete values
		if iv, ok := recv.(*IfaceV); ok && iv.Dyn != nil {
			if fn := ex.prog.LookupMethod(iv.Dyn, c.Method.Pkg(), c.Method.Name()); fn != nil && fn.Blocks != nil && !isPBFile(ex, fn) {
				return ex.callFunction(fr, fn, append([]Val{iv.V}, args...), nil, st, call)
			}
		}
		name := calleeName(c)
		return ex.callExternal(fr, name, c.Method.Type().(*types.Signature), recv, args, st, call)
	}
	switch f := c.Value.(type) {
	case *ssa.Builtin:
		return ex.goBuiltin(fr, f.Name(), args, c, st, call)
	case *ssa.Function:
		return ex.callFunction(fr, f, args, nil, st, call)
	}
	fv := ex.val(fr, c.Value, st)
	switch f := fv.(type) {
	case *FuncV:
		if f.Builtin != "" {
			return ex.callBuiltinClosure(f, args, st)
		}
		return ex.callFunction(fr, f.Fn, args, f.Bindings, st, call)
	}
	ex.warn("call of unknown function value in %s: results unconstrained, state kept", fr.fn.Name())
	return []Result{{st: st, ret: ex.freshResults(st, c.Signature())}}
}

func (ex *Exec) freshResults(st *State, sig *types.Signature) Val {
	switch sig.Results().Len() {
	case 0:
		return nil
	case 1:
		return ex.freshVal(st, "res", sig.Results().At(0).Type())
	}
	tv := &TupleV{}
	for i := 0; i < sig.Results().Len(); i++ {
		tv.Elems = append(tv.Elems, ex.freshVal(st, "res", sig.Results().At(i).Type()))
	}
	return tv
}

func (ex *Exec) callBuiltinClosure(f *FuncV, args []Val, st *State) []Result {
	switch f.Builtin {
	case "cachewrite":
		child := f.Data[0].(*CtxV)
		parent := f.Data[1].(*CtxV)
		w := *st.worlds[child.World]
		st.worlds[parent.World] = &w
		ex.recordMerge(child.World, parent.World)
		return []Result{{st: st, ret: nil}}
	}
	if strings.HasPrefix(f.Builtin, "param:") {
		var ts []*Term
		for i, a := range args {
			ts = append(ts, ex.asTerm(st, a, f.Sig.Params().At(i).Type()))
		}
		rs := ex.externalUF("fp_"+strings.TrimPrefix(f.Builtin, "param:"), f.Sig, nil, ts)
		switch len(rs) {
		case 0:
			return []Result{{st: st, ret: nil}}
		case 1:
			return []Result{{st: st, ret: rs[0]}}
		}
		tv := &TupleV{}
		for _, r := range rs {
			tv.Elems = append(tv.Elems, r)
		}
		return []Result{{st: st, ret: tv}}
	}
	panic("unknown builtin closure " + f.Builtin)
}

func (ex *Exec) contractKey(fn *ssa.Function) string {
	// Keeper.Method / pkgfunc, qualified by package directory tail
	name := fn.Name()
	if recv := fn.Signature.Recv(); recv != nil {
		t := derefType(recv.Type())
		if n, ok := types.Unalias(t).(*types.Named); ok {
			name = n.Obj().Name() + "." + fn.Name()
		}
	}
	return name
}

func pkgTail(fn *ssa.Function) string {
	if fn.Pkg == nil {
		if fn.Parent() != nil {
			return pkgTail(fn.Parent())
		}
		return ""
	}
	p := fn.Pkg.Pkg.Path()
	if i := strings.Index(p, "/x/ccv/"); i >= 0 {
		return p[i+len("/x/ccv/"):]
	}
	return p
}

func (ex *Exec) lookupContract(fn *ssa.Function) *Contract {
	if ex.contracts == nil {
		return nil
	}
	key := pkgTail(fn) + "." + ex.contractKey(fn)
	if c, ok := ex.contracts.Funcs[key]; ok {
		return c
	}
	return nil
}

// contractAtCallSite: callers see only the contract of functions that contain loops (transitively) or are
// declared `modular`; loop-free leaf functions are inlined (their body is their strongest contract).
func (ex *Exec) contractAtCallSite(fn *ssa.Function, ct *Contract) bool {
	if !ex.useContracts || ct.Inline || fn == ex.topFn || ex.noContractFor[ct.Func] {
		return false
	}
	r := ct.Modular || ex.hasLoop(fn, map[*ssa.Function]bool{})
	if os.Getenv("ICSVC_DEBUG_CT") != "" {
		fmt.Fprintf(os.Stderr, "contractAtCallSite %s -> %v\n", fn.Name(), r)
	}
	return r
}

func (ex *Exec) hasLoop(fn *ssa.Function, seen map[*ssa.Function]bool) bool {
	if seen[fn] || fn.Blocks == nil || isPBFile(ex, fn) {
		return false
	}
	seen[fn] = true
	if fn.Name() == "AppendMany" {
		return false // variadic concatenation: always unrolled concretely
	}
	if len(ex.loops(fn).list) > 0 {
		return true
	}
	for _, b := range fn.Blocks {
		for _, in := range b.Instrs {
			if c, ok := in.(ssa.CallInstruction); ok {
				if callee, ok := c.Common().Value.(*ssa.Function); ok && ex.hasLoop(callee, seen) {
					return true
				}
				if mc, ok := c.Common().Value.(*ssa.MakeClosure); ok {
					if ex.hasLoop(mc.Fn.(*ssa.Function), seen) {
						return true
					}
				}
			}
		}
	}
	return false
}

func (ex *Exec) callFunction(fr *Frame, fn *ssa.Function, args []Val, bindings []Val, st *State, call *ssa.Call) []Result {
	// synthetic wrappers / bound methods
	if fn.Blocks == nil || isPBFile(ex, fn) {
		sig := fn.Signature
		var recv Val
		a := args
		if sig.Recv() != nil && len(args) > 0 {
			recv = args[0]
			a = args[1:]
		}
		return ex.callExternal(fr, fn.String(), sig, recv, a, st, call)
	}
	if r, ok := ex.repoBuiltin(fr, fn, args, st, call); ok {
		return r
	}
	ex.checkPrecalls(fr, fn, args, st, call)
	if ct := ex.lookupContract(fn); ct != nil && ex.contractAtCallSite(fn, ct) {
		rs := ex.applyContract(fr, fn, ct, args, st, call)
		ex.logCall(fn, args, rs)
		return rs
	}
	if len(ex.callStack) > ex.inlineMax {
		ex.unsupp("inline depth exceeded at %s", fn.Name())
		return []Result{{st: st, ret: ex.freshResults(st, fn.Signature)}}
	}
	for _, f := range ex.callStack {
		if f == fn {
			ex.unsupp("recursive call of %s", fn.Name())
			return []Result{{st: st, ret: ex.freshResults(st, fn.Signature)}}
		}
	}
	base := len(st.pc)
	rs := ex.runFunc(fn, args, bindings, st, nil)
	rs = ex.mergeResults(base, rs, fn.Signature)
	ex.logCall(fn, args, rs)
	return rs
}

// logCall records the call in the ghost history of every resulting state (only for named repository functions).
func (ex *Exec) logCall(fn *ssa.Function, args []Val, rs []Result) {
	if ex.specMode > 0 || fn.Pkg == nil || len(ex.callStack) > 1 {
		return // only direct calls of the function under verification
	}
	name := fn.Name()
	var ps []*types.Var
	for _, p := range fn.Params {
		if v, ok := p.Object().(*types.Var); ok {
			ps = append(ps, v)
		} else {
			ps = append(ps, types.NewVar(0, nil, p.Name(), p.Type()))
		}
	}
	for _, r := range rs {
		if r.st.calls == nil {
			r.st.calls = map[string][]CallRec{}
		}
		r.st.calls[name] = append(r.st.calls[name], CallRec{Args: args, Ret: r.ret, Sig: fn.Signature, Params: ps})
	}
}

// callPure runs fn on a copy of st and returns the merged result value (effects are dropped).
func (ex *Exec) callPure(fn *ssa.Function, args []Val, st *State) Val {
	return ex.callPureB(fn, args, nil, st)
}

func (ex *Exec) callPureB(fn *ssa.Function, args []Val, bindings []Val, st *State) Val {
	save := ex.specMode
	ex.specMode++
	defer func() { ex.specMode = save }()
	st2 := st.Clone()
	base := len(st2.pc)
	var rs []Result
	if fn.Blocks == nil || isPBFile(ex, fn) {
		sig := fn.Signature
		var recv Val
		a := args
		if sig.Recv() != nil && len(args) > 0 {
			recv = args[0]
			a = args[1:]
		}
		rs = ex.callExternal(nil, fn.String(), sig, recv, a, st2, nil)
	} else if r, ok := ex.repoBuiltin(nil, fn, args, st2, nil); ok {
		rs = r
	} else {
		saveStack := ex.callStack
		rs = ex.runFunc(fn, args, bindings, st2, nil)
		ex.callStack = saveStack
	}
	if len(rs) == 0 {
		efail("spec call of %s has no returning path", fn.Name())
	}
	// definitional facts of all paths are kept in the caller's state
	sig := fn.Signature
	val := ex.mergeValues(base, rs, sig, st)
	return val
}

// mergeValues merges only the return values (used for pure calls); definitional assumptions flow into dst.
func (ex *Exec) mergeValues(base int, rs []Result, sig *types.Signature, dst *State) Val {
	for _, r := range rs {
		for _, d := range r.st.defs {
			if !d.hasBV { // facts mentioning bound variables of an enclosing quantifier are dropped (sound)
				dst.AssumeDef(d)
			}
		}
	}
	n := sig.Results().Len()
	if n == 0 {
		return nil
	}
	if len(rs) == 1 {
		// executor-level results refer to objects of the scratch state: convert them to terms
		conv := func(v Val, t types.Type) Val {
			switch v.(type) {
			case *SliceV, *ByteSlV, *MapV, *PtrV:
				return ex.asTerm(rs[0].st, v, t)
			}
			return v
		}
		if n == 1 {
			return conv(rs[0].ret, sig.Results().At(0).Type())
		}
		tv := &TupleV{}
		for i, el := range rs[0].ret.(*TupleV).Elems {
			tv.Elems = append(tv.Elems, conv(el, sig.Results().At(i).Type()))
		}
		return tv
	}
	toTerms := func(r Result) []*Term {
		var out []*Term
		if n == 1 {
			out = append(out, ex.asTerm(r.st, r.ret, sig.Results().At(0).Type()))
		} else {
			for i, el := range r.ret.(*TupleV).Elems {
				out = append(out, ex.asTerm(r.st, el, sig.Results().At(i).Type()))
			}
		}
		return out
	}
	acc := toTerms(rs[len(rs)-1])
	for k := len(rs) - 2; k >= 0; k-- {
		c := And(rs[k].st.pc[base:]...)
		ts := toTerms(rs[k])
		for i := range acc {
			acc[i] = Ite(c, ts[i], acc[i])
		}
	}
	if n == 1 {
		return acc[0]
	}
	tv := &TupleV{}
	for _, a := range acc {
		tv.Elems = append(tv.Elems, a)
	}
	return tv
}

// mergeResults joins the returning paths of an inlined call into one state when every differing
// heap cell holds a term; otherwise the paths stay separate.
func (ex *Exec) mergeResults(base int, rs []Result, sig *types.Signature) []Result {
	if len(rs) <= 1 {
		return rs
	}
	// mergeability: return values must be terms (or identical), heap differences must be terms
	n := sig.Results().Len()
	retTerms := func(r Result) ([]*Term, bool) {
		var out []*Term
		vals := []Val{r.ret}
		if n == 0 {
			return nil, true
		}
		if n > 1 {
			vals = r.ret.(*TupleV).Elems
		}
		for i, v := range vals {
			switch x := v.(type) {
			case *Term:
				out = append(out, x)
			case *SliceV, *ByteSlV, *MapV:
				out = append(out, ex.asTerm(r.st, x, sig.Results().At(i).Type()))
			case nil:
				out = append(out, zeroTerm(sig.Results().At(i).Type()))
			default:
				return nil, false
			}
		}
		return out, true
	}
	first := rs[0].st
	ids := map[int]bool{}
	for _, r := range rs {
		for id := range r.st.heap {
			ids[id] = true
		}
	}
	for id := range ids {
		var ref Val
		set := false
		for _, r := range rs {
			v, ok := r.st.heap[id]
			if !ok {
				continue
			}
			if !set {
				ref, set = v, true
				continue
			}
			if v == ref {
				continue
			}
			_, t1 := v.(*Term)
			_, t2 := ref.(*Term)
			if !(t1 && t2) {
				return rs
			}
		}
	}
	for _, r := range rs {
		if len(r.st.worlds) != len(first.worlds) {
			return rs
		}
	}
	var rts [][]*Term
	for _, r := range rs {
		ts, ok := retTerms(r)
		if !ok {
			return rs
		}
		rts = append(rts, ts)
	}
	conds := make([]*Term, len(rs))
	for k, r := range rs {
		conds[k] = And(r.st.pc[base:]...)
	}
	m := &State{pc: append([]*Term(nil), first.pc[:base]...), heap: map[int]Val{}, worlds: map[int]*World{}, optObj: map[int]*Obj{}, depth: first.depth}
	m.pc = append(m.pc, Or(conds...))
	if first.calls != nil {
		m.calls = make(map[string][]CallRec, len(first.calls))
		for k, v := range first.calls {
			m.calls[k] = append([]CallRec(nil), v...)
		}
	}
	for _, r := range rs {
		for _, d := range r.st.defs {
			m.AssumeDef(d)
		}
		for k, v := range r.st.optObj {
			m.optObj[k] = v
		}
	}
	for id := range ids {
		var acc Val
		for k := len(rs) - 1; k >= 0; k-- {
			v, ok := rs[k].st.heap[id]
			if !ok {
				continue
			}
			if acc == nil {
				acc = v
				continue
			}
			if v == acc {
				continue
			}
			acc = Ite(conds[k], v.(*Term), acc.(*Term))
		}
		m.heap[id] = acc
	}
	for wid := range first.worlds {
		var acc *World
		for k := len(rs) - 1; k >= 0; k-- {
			w := rs[k].st.worlds[wid]
			if w == nil {
				return rs
			}
			if acc == nil {
				c := *w
				acc = &c
				continue
			}
			acc = &World{S: Ite(conds[k], w.S, acc.S), X: Ite(conds[k], w.X, acc.X), E: Ite(conds[k], w.E, acc.E)}
		}
		m.worlds[wid] = acc
	}
	var ret Val
	if n > 0 {
		acc := rts[len(rts)-1]
		for k := len(rs) - 2; k >= 0; k-- {
			for i := range acc {
				acc[i] = Ite(conds[k], rts[k][i], acc[i])
			}
		}
		if n == 1 {
			ret = acc[0]
		} else {
			tv := &TupleV{}
			for _, a := range acc {
				tv.Elems = append(tv.Elems, a)
			}
			ret = tv
		}
	}
	return []Result{{st: m, ret: ret}}
}

// ---------------------------------------------------------------- Go builtins

func (ex *Exec) goBuiltin(fr *Frame, name string, args []Val, c *ssa.CallCommon, st *State, call *ssa.Call) []Result {
	one := func(v Val) []Result { return []Result{{st: st, ret: v}} }
	switch name {
	case "len":
		switch x := args[0].(type) {
		case *SliceV:
			return one(x.Len)
		case *ByteSlV:
			return one(BLen(ex.content(st, x.Obj).(*Term)))
		case *MapV:
			cn := ex.content(st, x.Obj).(*Term)
			DeclareUF("maplen_"+sortIdent(cn.Sort), []*Sort{cn.Sort}, SInt)
			l := App("maplen_"+sortIdent(cn.Sort), cn)
			st.AssumeDef(Ge(l, IntLit(0)))
			return one(l)
		case *Term:
			switch {
			case x.Sort == SBytes:
				return one(BLen(x))
			case isSliceSort(x.Sort):
				return one(SlLen(x))
			case isMapSort(x.Sort):
				DeclareUF("maplen_"+sortIdent(x.Sort), []*Sort{x.Sort}, SInt)
				l := App("maplen_"+sortIdent(x.Sort), x)
				st.AssumeDef(Ge(l, IntLit(0)))
				return one(l)
			case x.Sort.Kind == KArray:
				if at, ok := c.Args[0].Type().Underlying().(*types.Array); ok {
					return one(IntLit(at.Len()))
				}
			}
		}
		ex.unsupp("len of %s", describeVal(args[0]))
		return one(Fresh("len", SInt))
	case "cap":
		l := Fresh("cap", SInt)
		st.AssumeDef(Ge(l, IntLit(0)))
		return one(l)
	case "append":
		return one(ex.appendOp(st, args[0], args[1], c.Args[0].Type()))
	case "delete":
		m := ex.asMap(st, args[0], c.Args[0].Type())
		k := ex.asTerm(st, args[1], m.Key)
		cn := ex.content(st, m.Obj).(*Term)
		st.heap[m.Obj.id] = MkMap(k.Sort, sortOf(m.Elt), Store(MapHas(cn), k, False), MapVals(cn))
		return one(nil)
	case "copy":
		ex.unsupp("builtin copy in %s", ex.fnPrefix)
		return one(Fresh("copy", SInt))
	case "min", "max":
		a, b := args[0].(*Term), args[1].(*Term)
		if name == "min" {
			return one(Ite(Le(a, b), a, b))
		}
		return one(Ite(Le(a, b), b, a))
	case "ssa:wrapnilchk":
		return one(args[0])
	case "ssa:deferstack":
		return one(&OpaqueV{"deferstack"})
	case "print", "println":
		return one(nil)
	case "recover":
		return one(IfaceNil)
	}
	ex.unsupp("go builtin %s", name)
	return one(ex.freshResults(st, c.Signature()))
}

func (ex *Exec) appendOp(st *State, a, b Val, t types.Type) Val {
	if isByteSlice(t) {
		at := ex.asBytes(st, a)
		// append([]byte, string...) is legal
		bt := ex.asBytes(st, b)
		return Cat(at, bt)
	}
	et := t.Underlying().(*types.Slice).Elem()
	es := sortOf(et)
	var sa, sb *SliceV
	if a == nil {
		a = zeroTerm(t)
	}
	sa = ex.asSlice(st, a, t)
	sb = ex.asSlice(st, b, t)
	arrA := ex.shiftedArr(st, sa)
	if sb.Len.Op == "int" && sb.Len.Int.IsInt64() && sb.Len.Int.Int64() <= 16 {
		arrB := ex.content(st, sb.Obj).(*Term)
		res := arrA
		for j := int64(0); j < sb.Len.Int.Int64(); j++ {
			res = Store(res, Add(sa.Len, IntLit(j)), Select(arrB, Add(sb.Off, IntLit(j))))
		}
		o := st.NewObj("append", nil, res)
		return &SliceV{Obj: o, Off: IntLit(0), Len: Add(sa.Len, sb.Len), Elem: et, Nil: And(sa.IsNil(), Eq(sb.Len, IntLit(0)))}
	}
	arrB := ex.content(st, sb.Obj).(*Term)
	res := Det("appended", ArraySort(SInt, es), arrA, sa.Len, arrB, sb.Off, sb.Len)
	k := BVar("k!ap", SInt)
	st.AssumeDef(Forall([]*Term{k}, And(
		Implies(And(Le(IntLit(0), k), Lt(k, sa.Len)), Eq(Select(res, k), Select(arrA, k))),
		Implies(And(Le(sa.Len, k), Lt(k, Add(sa.Len, sb.Len))), Eq(Select(res, k), Select(arrB, Add(sb.Off, Sub(k, sa.Len)))))),
		[]*Term{Select(res, k)}))
	o := st.NewObj("append", nil, res)
	return &SliceV{Obj: o, Off: IntLit(0), Len: Add(sa.Len, sb.Len), Elem: et, Nil: And(sa.IsNil(), Eq(sb.Len, IntLit(0)))}
}

// externalUF models an unverified pure function as uninterpreted functions of its (term) arguments, one per result.
func (ex *Exec) externalUF(name string, sig *types.Signature, x *Term, args []*Term) []*Term {
	var as []*Term
	var ss []*Sort
	if x != nil {
		as = append(as, x)
		ss = append(ss, x.Sort)
	}
	for _, a := range args {
		as = append(as, a)
		ss = append(ss, a.Sort)
	}
	var out []*Term
	base := "ext_" + ufBaseName(name)
	for i := 0; i < sig.Results().Len(); i++ {
		rs := sortOf(sig.Results().At(i).Type())
		n := base
		if sig.Results().Len() > 1 {
			n = fmt.Sprintf("%s_r%d", base, i)
		}
		// arity/sort overloading: suffix with sorts when already declared differently
		if d, ok := ufTable[n]; ok && !sameSorts(d.Args, ss) {
			n = n + "@" + sortsKey(ss)
		}
		DeclareUF(n, ss, rs)
		out = append(out, App(n, as...))
	}
	return out
}

func sameSorts(a, b []*Sort) bool {
	if len(a) != len(b) {
		return false
	}
	for i := range a {
		if a[i] != b[i] {
			return false
		}
	}
	return true
}

func sortsKey(ss []*Sort) string {
	var p []string
	for _, s := range ss {
		p = append(p, sortIdent(s))
	}
	return strings.Join(p, ",")
}

func ufBaseName(name string) string {
	// (pkg/path.Type).Method -> Type.Method ; pkg/path.Func -> path.Func
	n := name
	if strings.HasPrefix(n, "(") {
		// (pkg.Type).Method -> Type.Method
		if j := strings.Index(n, ")"); j > 0 {
			recv := strings.TrimPrefix(n[1:j], "*")
			if k := strings.LastIndex(recv, "/"); k >= 0 {
				recv = recv[k+1:]
			}
			if k := strings.Index(recv, "."); k >= 0 {
				recv = recv[k+1:]
			}
			n = recv + n[j+1:]
		}
	}
	n = strings.TrimPrefix(n, "*")
	if j := strings.LastIndex(n, "/"); j >= 0 {
		n = n[j+1:]
	}
	return strings.NewReplacer(" ", "", "*", "", "(", "", ")", "", ".", "_", "-", "_").Replace(n)
}

func unusedCall(_ token.Pos) {}

// checkPrecalls: `precall Callee [label] e` clauses of the function under verification are asserted at each of its
// direct call sites of Callee, in the state just before the call; $Callee.<param> names the actual arguments.
func (ex *Exec) checkPrecalls(fr *Frame, fn *ssa.Function, args []Val, st *State, call *ssa.Call) {
	if ex.specMode > 0 || fn.Pkg == nil || len(ex.callStack) != 1 || fr == nil || fr.fn != ex.topFn {
		return
	}
	ct := fr.contract
	if ct == nil {
		ct = ex.lookupContract(fr.fn)
	}
	if ct == nil || len(ct.Precalls[fn.Name()]) == 0 {
		return
	}
	name := fn.Name()
	var ps []*types.Var
	for _, p := range fn.Params {
		if v, ok := p.Object().(*types.Var); ok {
			ps = append(ps, v)
		} else {
			ps = append(ps, types.NewVar(0, nil, p.Name(), p.Type()))
		}
	}
	saved := st.calls
	tmp := map[string][]CallRec{}
	for k, v := range saved {
		tmp[k] = v
	}
	tmp[name] = []CallRec{{Args: args, Sig: fn.Signature, Params: ps}}
	st.calls = tmp
	defer func() { st.calls = saved }()
	var old *State
	var params map[string]TV
	var ctx *CtxV
	if fr.entry != nil {
		old = fr.entry.st
		params = fr.entry.params
		ctx = fr.entry.ctx
	}
	env := ex.envFor(fr.fn, params, ctx, st, old)
	env.fr = fr
	var errs []string
	env = ex.bindLets(env, ct.Lets, &errs)
	pos := token.NoPos
	if call != nil {
		pos = call.Pos()
	}
	for _, pc := range ct.Precalls[name] {
		c, err := env.EvalBool(pc.Expr)
		if err != nil {
			ex.unsupp("precall %s [%s] in %s: %v", name, pc.Label, fr.fn.Name(), err)
			continue
		}
		kind := "pre"
		if pc.Stretch {
			kind = "stretch"
		}
		ex.oblige(st, kind, fmt.Sprintf("%s#precall:%s.%s", ex.fnPrefix, name, pc.Label), c, pos)
		ex.precallSeen[ex.fnPrefix+"#"+name+"."+pc.Label] = true
	}
}
