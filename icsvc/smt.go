package main

import (
	"fmt"
	"sort"
	"strings"
)

// Query: assumptions ∧ ¬goal is checked for unsatisfiability (or, for covers, assumptions alone for satisfiability).
type Query struct {
	Name    string
	Assumes []*Term
	Goal    *Term // nil for cover queries
	Cover   bool
}

type smtPrinter struct {
	sb        strings.Builder
	defs      strings.Builder
	named     map[int]string
	refs      map[int]int
	shapes    map[string]*shapeInfo
	shapeList []*shapeInfo
	lits      map[string]string
	litList   []string
	sorts     map[string]*Sort
	ufs       map[string]bool
	vars      map[string]*Term
	usesDiv   bool
	pbTags    map[string]bool
	carr      strings.Builder
	carrDone  map[int]bool
}

type shapeInfo struct {
	idx   int
	sh    *Shape
	name  string
	sorts []*Sort
}

func smtName(s string) string {
	ok := true
	for _, c := range s {
		if !(c >= 'a' && c <= 'z' || c >= 'A' && c <= 'Z' || c >= '0' && c <= '9' || c == '_' || c == '.' || c == '!' || c == '$' || c == '~' || c == '@') {
			ok = false
		}
	}
	if ok && s != "" {
		return s
	}
	return "|" + strings.ReplaceAll(strings.ReplaceAll(s, "|", "_"), "\\", "_") + "|"
}

func (p *smtPrinter) collect(t *Term, seen map[int]bool) {
	p.refs[t.id]++
	if seen[t.id] {
		return
	}
	seen[t.id] = true
	p.noteSort(t.Sort)
	switch t.Op {
	case "var":
		p.vars[t.Str] = t
	case "uf":
		p.ufs[t.Str] = true
	case "godiv", "gomod":
		p.usesDiv = true
	case "lit":
		if _, ok := p.lits[t.Str]; !ok {
			p.lits[t.Str] = fmt.Sprintf("lit_%d", len(p.lits))
			p.litList = append(p.litList, t.Str)
		}
	case "cat", "be8", "be4", "b1", "tm", "pb":
		sh := shapeOf(t)
		if _, ok := p.shapes[sh.Sig]; !ok {
			si := &shapeInfo{idx: len(p.shapes), sh: sh, name: fmt.Sprintf("sh_%d", len(p.shapes))}
			for _, a := range sh.Args {
				si.sorts = append(si.sorts, a.Sort)
			}
			p.shapes[sh.Sig] = si
			p.shapeList = append(p.shapeList, si)
		}
		if t.Op == "pb" {
			p.pbTags[t.Str] = true
		}
		// children: traverse the shape args (not the raw cat segments, to keep LP's blen out when unused)
		for _, a := range sh.Args {
			p.collect(a, seen)
		}
		return
	}
	for _, a := range t.Args {
		p.collect(a, seen)
	}
}

func (p *smtPrinter) noteSort(s *Sort) {
	if _, ok := p.sorts[s.Name]; ok {
		return
	}
	p.sorts[s.Name] = s
	switch s.Kind {
	case KArray:
		p.noteSort(s.Index)
		p.noteSort(s.Elem)
	case KDT:
		for _, c := range s.DT.Cons {
			for _, f := range c.Fields {
				p.noteSort(f.Sort)
			}
		}
	}
}

func (p *smtPrinter) term(t *Term) string {
	if n, ok := p.named[t.id]; ok {
		return n
	}
	switch t.Op {
	case "int":
		if t.Int.Sign() < 0 {
			return "(- " + t.Int.String()[1:] + ")"
		}
		return t.Int.String()
	case "true", "false":
		return t.Op
	case "var", "bvar":
		return smtName(t.Str)
	case "lit":
		return p.lits[t.Str]
	case "cat", "be8", "be4", "b1", "tm", "pb":
		sh := shapeOf(t)
		si := p.shapes[sh.Sig]
		if len(sh.Args) == 0 {
			return si.name
		}
		var sb strings.Builder
		sb.WriteString("(" + si.name)
		for _, a := range sh.Args {
			sb.WriteByte(' ')
			sb.WriteString(p.term(a))
		}
		sb.WriteByte(')')
		return sb.String()
	case "constarr":
		v := t.Args[0]
		if v.Op == "int" || v.Op == "true" || v.Op == "false" {
			return "((as const " + t.Sort.Name + ") " + p.term(v) + ")"
		}
		// cvc5 only accepts values in constant arrays: use a named array constrained by an axiom
		n := fmt.Sprintf("carr_%d", t.id)
		if !p.carrDone[t.id] {
			p.carrDone[t.id] = true
			fmt.Fprintf(&p.defs, "(declare-const %s %s)\n(assert (forall ((i %s)) (! (= (select %s i) %s) :pattern ((select %s i)))))\n", n, t.Sort.Name, t.Sort.Index.Name, n, p.term(v), n)
		}
		return n
	case "cons":
		if len(t.Args) == 0 {
			return smtName(t.Str)
		}
	case "forall", "exists":
		var sb strings.Builder
		sb.WriteString("(" + t.Op + " (")
		for _, b := range t.Bound {
			sb.WriteString("(" + smtName(b.Str) + " " + b.Sort.Name + ")")
		}
		sb.WriteString(") ")
		body := p.term(t.Args[0])
		var pats [][]*Term
		for _, pat := range t.Pats {
			ok := true
			for _, x := range pat {
				if !validPattern(x) {
					ok = false
				}
			}
			if ok {
				pats = append(pats, pat)
			}
		}
		if len(pats) > 0 {
			sb.WriteString("(! " + body)
			for _, pat := range pats {
				sb.WriteString(" :pattern (")
				for i, x := range pat {
					if i > 0 {
						sb.WriteByte(' ')
					}
					sb.WriteString(p.term(x))
				}
				sb.WriteString(")")
			}
			sb.WriteString(")")
		} else {
			sb.WriteString(body)
		}
		sb.WriteString(")")
		return sb.String()
	}
	var head string
	switch t.Op {
	case "cons":
		head = smtName(t.Str)
	case "sel":
		head = smtName(t.Str)
	case "is":
		head = "(_ is " + smtName(t.Str) + ")"
	case "uf":
		head = smtName(t.Str)
		if len(t.Args) == 0 {
			return head
		}
	case "neg":
		head = "-"
	default:
		head = t.Op
	}
	var sb strings.Builder
	sb.WriteString("(" + head)
	for _, a := range t.Args {
		sb.WriteByte(' ')
		sb.WriteString(p.term(a))
	}
	sb.WriteByte(')')
	return sb.String()
}

func validPattern(t *Term) bool {
	switch t.Op {
	case "var", "bvar", "int", "lit":
		return true
	case "uf", "select", "sel", "cons", "cat", "be8", "be4", "b1", "tm", "pb", "store":
		for _, a := range t.Args {
			if !validPattern(a) {
				return false
			}
		}
		return t.hasBV
	case "+", "-":
		for _, a := range t.Args {
			if !validPattern(a) {
				return false
			}
		}
		return true
	}
	return false
}

// nameShared introduces define-funs for shared closed subterms, in dependency order.
func (p *smtPrinter) nameShared(roots []*Term) {
	seen := map[int]bool{}
	var rec func(t *Term)
	rec = func(t *Term) {
		if seen[t.id] {
			return
		}
		seen[t.id] = true
		kids := t.Args
		if isBytesConstruct(t) && t.Op != "lit" {
			kids = shapeOf(t).Args
		}
		for _, a := range kids {
			rec(a)
		}
		if t.hasBV || len(t.Args) == 0 || p.refs[t.id] < 2 {
			return
		}
		if t.Op == "forall" || t.Op == "exists" {
			return
		}
		body := p.term(t)
		n := fmt.Sprintf("n%d", t.id)
		fmt.Fprintf(&p.defs, "(define-fun %s () %s %s)\n", n, t.Sort.Name, body)
		p.named[t.id] = n
	}
	for _, r := range roots {
		rec(r)
	}
}

func dtDeps(s *Sort, out map[string]bool) {
	switch s.Kind {
	case KDT:
		out[s.Name] = true
	case KArray:
		dtDeps(s.Index, out)
		dtDeps(s.Elem, out)
	}
}

func (q *Query) SMT(withModel bool) string {
	p := &smtPrinter{named: map[int]string{}, refs: map[int]int{}, shapes: map[string]*shapeInfo{}, lits: map[string]string{},
		sorts: map[string]*Sort{}, ufs: map[string]bool{}, vars: map[string]*Term{}, pbTags: map[string]bool{}, carrDone: map[int]bool{}}
	roots := append([]*Term{}, q.Assumes...)
	if q.Goal != nil {
		roots = append(roots, Not(q.Goal))
	}
	// definitional unfolding of spec functions adds assumptions
	roots = append(roots, specUnfoldings(roots)...)
	seen := map[int]bool{}
	for _, r := range roots {
		p.collect(r, seen)
	}
	var out strings.Builder
	out.WriteString("; query " + q.Name + "\n")
	out.WriteString("(set-option :produce-models true)\n(set-logic ALL)\n")
	out.WriteString("(declare-sort Bytes 0)\n")
	// uninterpreted sorts
	var snames []string
	for n := range p.sorts {
		snames = append(snames, n)
	}
	sort.Strings(snames)
	for _, n := range snames {
		if s := p.sorts[n]; s.Kind == KUninterp {
			fmt.Fprintf(&out, "(declare-sort %s 0)\n", s.Name)
		}
	}
	// datatypes in dependency order
	done := map[string]bool{}
	var emitDT func(s *Sort)
	emitDT = func(s *Sort) {
		if done[s.Name] {
			return
		}
		done[s.Name] = true
		deps := map[string]bool{}
		for _, c := range s.DT.Cons {
			for _, f := range c.Fields {
				dtDeps(f.Sort, deps)
			}
		}
		var dn []string
		for d := range deps {
			dn = append(dn, d)
		}
		sort.Strings(dn)
		for _, d := range dn {
			if d != s.Name {
				emitDT(sortTable[d])
			}
		}
		fmt.Fprintf(&out, "(declare-datatypes ((%s 0)) ((", s.Name)
		for _, c := range s.DT.Cons {
			fmt.Fprintf(&out, "(%s", smtName(c.Name))
			for _, f := range c.Fields {
				fmt.Fprintf(&out, " (%s %s)", smtName(f.Name), f.Sort.Name)
			}
			out.WriteString(")")
		}
		out.WriteString(")))\n")
	}
	for _, n := range snames {
		if s := p.sorts[n]; s.Kind == KDT {
			emitDT(s)
		}
	}
	if p.usesDiv {
		out.WriteString("(define-fun godiv ((a Int) (b Int)) Int (ite (>= a 0) (div a b) (- (div (- a) b))))\n")
		out.WriteString("(define-fun gomod ((a Int) (b Int)) Int (- a (* b (godiv a b))))\n")
		// integer division facts for a symbolic divisor (true in SMT-LIB Ints; the solvers only know them for literal divisors)
		out.WriteString("(assert (forall ((a Int) (b Int)) (! (=> (> b 0) (and (<= 0 (- a (* b (div a b)))) (< (- a (* b (div a b))) b))) :pattern ((div a b)))))\n")
		out.WriteString("(assert (forall ((a Int) (b Int)) (! (=> (> b 0) (= (mod a b) (- a (* b (div a b))))) :pattern ((mod a b)))))\n")
	}
	// always-declared byte helpers
	p.vars["bnil"] = BNil
	for _, n := range []string{"fam", "blen", "bpre"} {
		p.ufs[n] = true
	}
	for tag := range p.pbTags {
		p.ufs[pbDecName(tag)] = true
		p.ufs[pbOkName(tag)] = true
	}
	for _, si := range p.shapeList {
		for _, k := range si.sh.Kinds {
			switch k {
			case "B8":
				p.ufs["dec_be8"] = true
			case "B4":
				p.ufs["dec_be4"] = true
			case "TM":
				p.ufs["dec_tm"] = true
				p.ufs["ok_tm"] = true
			}
		}
	}
	for _, n := range sortedKeys(p.vars) {
		v := p.vars[n]
		fmt.Fprintf(&out, "(declare-const %s %s)\n", smtName(v.Str), v.Sort.Name)
	}
	var ufn []string
	for n := range p.ufs {
		ufn = append(ufn, n)
	}
	sort.Strings(ufn)
	for _, n := range ufn {
		d := ufTable[n]
		fmt.Fprintf(&out, "(declare-fun %s (", smtName(n))
		for i, a := range d.Args {
			if i > 0 {
				out.WriteByte(' ')
			}
			out.WriteString(a.Name)
		}
		fmt.Fprintf(&out, ") %s)\n", d.Res.Name)
	}
	// literals
	for _, l := range p.litList {
		n := p.lits[l]
		fmt.Fprintf(&out, "(declare-const %s Bytes) ; %q\n", n, l)
		fmt.Fprintf(&out, "(assert (not (= %s bnil)))\n(assert (= (blen %s) %d))\n", n, n, len(l))
		if len(l) > 0 {
			fmt.Fprintf(&out, "(assert (= (fam %s) %d))\n", n, l[0])
		}
	}
	if len(p.litList) > 1 {
		out.WriteString("(assert (distinct")
		for _, l := range p.litList {
			out.WriteString(" " + p.lits[l])
		}
		out.WriteString("))\n")
	}
	if p.ufs["dec_be8"] {
		out.WriteString("(assert (forall ((b Bytes)) (! (and (<= 0 (dec_be8 b)) (<= (dec_be8 b) 18446744073709551615)) :pattern ((dec_be8 b)))))\n")
	}
	if p.ufs["dec_be4"] {
		out.WriteString("(assert (forall ((b Bytes)) (! (and (<= 0 (dec_be4 b)) (<= (dec_be4 b) 4294967295)) :pattern ((dec_be4 b)))))\n")
	}
	if p.ufs["key_lt"] {
		// lexicographic byte order respects the first byte
		out.WriteString("(assert (forall ((a Bytes) (b Bytes)) (! (=> (and (key_lt a b) (>= (blen a) 1) (>= (blen b) 1)) (<= (fam a) (fam b))) :pattern ((key_lt a b)))))\n")
		// a key between p and h (p <= k < h) where h starts with p also starts with p
		out.WriteString("(assert (forall ((p Bytes) (k Bytes) (h Bytes)) (! (=> (and (not (key_lt k p)) (key_lt k h) (bpre p h)) (bpre p k)) :pattern ((key_lt k p) (key_lt k h)))))\n")
	}
	out.WriteString("(assert (= (blen bnil) 0))\n")
	out.WriteString("(assert (forall ((b Bytes)) (! (>= (blen b) 0) :pattern ((blen b)))))\n")
	out.WriteString("(assert (forall ((p Bytes) (k Bytes)) (! (=> (and (bpre p k) (>= (blen p) 1)) (= (fam p) (fam k))) :pattern ((bpre p k)))))\n")
	// shapes
	for _, si := range p.shapeList {
		sh := si.sh
		if len(sh.Args) == 0 {
			// pure literal handled above
			continue
		}
		fmt.Fprintf(&out, "(declare-fun %s (", si.name)
		for i, s := range si.sorts {
			if i > 0 {
				out.WriteByte(' ')
			}
			out.WriteString(s.Name)
		}
		fmt.Fprintf(&out, ") Bytes) ; shape %s\n", sh.Sig)
		var bind, app strings.Builder
		app.WriteString("(" + si.name)
		for i, s := range si.sorts {
			fmt.Fprintf(&bind, "(a%d %s)", i, s.Name)
			fmt.Fprintf(&app, " a%d", i)
		}
		app.WriteString(")")
		ax := func(body string) {
			fmt.Fprintf(&out, "(assert (forall (%s) (! %s :pattern (%s))))\n", bind.String(), body, app.String())
		}
		ax(fmt.Sprintf("(not (= %s bnil))", app.String()))
		if sh.FirstByte >= 0 {
			ax(fmt.Sprintf("(= (fam %s) %d)", app.String(), sh.FirstByte))
		}
		if sh.Kinds[0] == "R" && si.sorts[0] == SBytes {
			ax(fmt.Sprintf("(bpre a0 %s)", app.String()))
		}
		if sh.Decodable {
			for i, s := range si.sorts {
				inv := fmt.Sprintf("%s_inv%d", si.name, i)
				fmt.Fprintf(&out, "(declare-fun %s (Bytes) %s)\n", inv, s.Name)
				ax(fmt.Sprintf("(= (%s %s) a%d)", inv, app.String(), i))
			}
		}
		// length
		{
			var parts []string
			ai := 0
			for _, k := range sh.Kinds {
				switch {
				case k == "B8":
					parts = append(parts, "8")
					ai++
				case k == "B4":
					parts = append(parts, "4")
					ai++
				case k == "B1":
					parts = append(parts, "1")
					ai++
				case k == "TM":
					parts = append(parts, fmt.Sprint(tmWidth))
					ai++
				case k == "LP":
					parts = append(parts, fmt.Sprintf("(+ 8 (blen a%d))", ai))
					ai++
				case k == "R":
					parts = append(parts, fmt.Sprintf("(blen a%d)", ai))
					ai++
				case strings.HasPrefix(k, "PB"):
					parts = append(parts, "") // unknown
					ai++
				case strings.HasPrefix(k, "L"):
					parts = append(parts, fmt.Sprint((len(k)-1)/2))
				}
			}
			known := true
			for _, x := range parts {
				if x == "" {
					known = false
				}
			}
			if known {
				ax(fmt.Sprintf("(= (blen %s) (+ 0 %s))", app.String(), strings.Join(parts, " ")))
			}
		}
		if len(sh.Kinds) == 1 {
			switch {
			case sh.Kinds[0] == "B8":
				ax(fmt.Sprintf("(=> (and (<= 0 a0) (<= a0 18446744073709551615)) (= (dec_be8 %s) a0))", app.String()))
			case sh.Kinds[0] == "B4":
				ax(fmt.Sprintf("(=> (and (<= 0 a0) (<= a0 4294967295)) (= (dec_be4 %s) a0))", app.String()))
			case sh.Kinds[0] == "TM":
				ax(fmt.Sprintf("(and (= (dec_tm %s) a0) (ok_tm %s))", app.String(), app.String()))
			case strings.HasPrefix(sh.Kinds[0], "PB"):
				tag := sh.Kinds[0][2:]
				ax(fmt.Sprintf("(and (= (%s %s) a0) (%s %s))", smtName(pbDecName(tag)), app.String(), smtName(pbOkName(tag)), app.String()))
			}
		}
	}
	// prefix axioms between shapes
	for _, pj := range p.shapeList {
		if !pj.sh.FullyDelimited {
			continue
		}
		for _, kk := range p.shapeList {
			if len(pj.sh.Kinds) > len(kk.sh.Kinds) || len(kk.sh.Args) == 0 {
				continue
			}
			okp := true
			for i := range pj.sh.Kinds {
				if pj.sh.Kinds[i] != kk.sh.Kinds[i] {
					okp = false
				}
			}
			if !okp {
				continue
			}
			var bind, appP, appK strings.Builder
			var eqs []string
			appP.WriteString("(" + pj.name)
			appK.WriteString("(" + kk.name)
			for i, s := range pj.sorts {
				fmt.Fprintf(&bind, "(a%d %s)", i, s.Name)
				fmt.Fprintf(&appP, " a%d", i)
				eqs = append(eqs, fmt.Sprintf("(= a%d b%d)", i, i))
			}
			for i, s := range kk.sorts {
				fmt.Fprintf(&bind, "(b%d %s)", i, s.Name)
				fmt.Fprintf(&appK, " b%d", i)
			}
			appP.WriteString(")")
			appK.WriteString(")")
			ps := appP.String()
			if len(pj.sorts) == 0 {
				ps = pj.name
				if pj.sh.Sig != "" && p.lits != nil {
					// literal-only prefix: its name is the literal constant
					ps = ""
					for l, n := range p.lits {
						if fmt.Sprintf("L%x", l) == pj.sh.Sig {
							ps = n
						}
					}
					if ps == "" {
						continue
					}
				}
			}
			rhs := "true"
			if len(eqs) > 0 {
				rhs = "(and " + strings.Join(eqs, " ") + ")"
			}
			fmt.Fprintf(&out, "(assert (forall (%s) (! (= (bpre %s %s) %s) :pattern ((bpre %s %s)))))\n", bind.String(), ps, appK.String(), rhs, ps, appK.String())
		}
	}
	p.nameShared(roots)
	var asserts strings.Builder
	for _, r := range roots {
		asserts.WriteString("(assert " + p.term(r) + ")\n")
	}
	out.WriteString(p.defs.String())
	out.WriteString(p.carr.String())
	out.WriteString(asserts.String())
	out.WriteString("(check-sat)\n")
	if withModel {
		out.WriteString("(get-model)\n")
	}
	return out.String()
}
