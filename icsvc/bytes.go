package main

// Byte strings (Go string and []byte) as terms of the uninterpreted sort Bytes in a concatenation normal form.
// Segment kinds: lit (constant bytes), be8/be4/b1 (fixed width big-endian integers), tm (sdk.FormatTimeBytes, fixed width),
// pb (encoder of a typed value, variable width), anything else = raw variable-width bytes.
// The structural facts used here (injectivity of decodable shapes, disjointness by first byte, prefix relation of
// fully delimited prefixes) are exactly the facts that the byte-level lemmas of property C13 (keylemmas.go) prove with
// the sequence theory for every shape that occurs as a store key.

import (
	"fmt"
	"strings"
)

var BNil = Var("bnil", SBytes)

func Lit(s string) *Term { return mk("lit", SBytes, s, nil) }

func BE8(x *Term) *Term { return mk("be8", SBytes, "", nil, x) }
func BE4(x *Term) *Term { return mk("be4", SBytes, "", nil, x) }
func B1(x *Term) *Term {
	if x.Op == "int" && x.Int.IsInt64() && x.Int.Int64() >= 0 && x.Int.Int64() < 256 {
		return Lit(string([]byte{byte(x.Int.Int64())}))
	}
	return mk("b1", SBytes, "", nil, x)
}
func TM(x *Term) *Term { return mk("tm", SBytes, "", nil, x) }

// PB is the (injective) encoding of a typed value; tag names codec and type.
func PB(tag string, x *Term) *Term { return mk("pb", SBytes, tag, nil, x) }

const tmWidth = 29 // len("2006-01-02T15:04:05.000000000")

func segsOf(t *Term) []*Term {
	if t.Op == "cat" {
		return t.Args
	}
	return []*Term{t}
}

func Cat(parts ...*Term) *Term {
	var segs []*Term
	for _, p := range parts {
		for _, s := range segsOf(p) {
			if s == BNil {
				continue
			}
			if s.Op == "lit" && s.Str == "" {
				continue
			}
			if s.Op == "lit" && len(segs) > 0 && segs[len(segs)-1].Op == "lit" {
				segs[len(segs)-1] = Lit(segs[len(segs)-1].Str + s.Str)
				continue
			}
			segs = append(segs, s)
		}
	}
	if len(segs) == 0 {
		return Lit("")
	}
	if len(segs) == 1 {
		return segs[0]
	}
	return mk("cat", SBytes, "", nil, segs...)
}

func segFixedLen(s *Term) (int, bool) {
	switch s.Op {
	case "lit":
		return len(s.Str), true
	case "be8":
		return 8, true
	case "be4":
		return 4, true
	case "b1":
		return 1, true
	case "tm":
		return tmWidth, true
	}
	return 0, false
}

func isBytesConstruct(t *Term) bool {
	switch t.Op {
	case "lit", "cat", "be8", "be4", "b1", "tm", "pb":
		return true
	}
	return false
}

// Shape of a Bytes term.
type Shape struct {
	Sig       string   // e.g. "L1f|LP|R"
	Kinds     []string // per segment: L<hex> B8 B4 B1 TM PB<tag> R LP
	Args      []*Term  // variable parts, in order (LP contributes the string only)
	Decodable bool
	FirstByte int // -1 unknown
	FullyDelimited bool // every variable-width part is length prefixed (usable as an iteration prefix)
}

func shapeOf(t *Term) *Shape {
	segs := segsOf(t)
	sh := &Shape{FirstByte: -1}
	undelimited := 0
	tailFixedAfterVar := true
	for i := 0; i < len(segs); i++ {
		s := segs[i]
		switch s.Op {
		case "lit":
			sh.Kinds = append(sh.Kinds, fmt.Sprintf("L%x", s.Str))
		case "be8":
			// length prefix?
			if i+1 < len(segs) {
				n := segs[i+1]
				if !isFixedSeg(n) && n.Op != "pb" && s.Args[0] == BLen(n) {
					sh.Kinds = append(sh.Kinds, "LP")
					sh.Args = append(sh.Args, n)
					i++
					continue
				}
			}
			sh.Kinds = append(sh.Kinds, "B8")
			sh.Args = append(sh.Args, s.Args[0])
		case "be4":
			sh.Kinds = append(sh.Kinds, "B4")
			sh.Args = append(sh.Args, s.Args[0])
		case "b1":
			sh.Kinds = append(sh.Kinds, "B1")
			sh.Args = append(sh.Args, s.Args[0])
		case "tm":
			sh.Kinds = append(sh.Kinds, "TM")
			sh.Args = append(sh.Args, s.Args[0])
		case "pb":
			sh.Kinds = append(sh.Kinds, "PB"+s.Str)
			sh.Args = append(sh.Args, s.Args[0])
			undelimited++
		default:
			sh.Kinds = append(sh.Kinds, "R")
			sh.Args = append(sh.Args, s)
			undelimited++
		}
	}
	_ = tailFixedAfterVar
	sh.Sig = strings.Join(sh.Kinds, "|")
	sh.Decodable = undelimited <= 1
	sh.FullyDelimited = undelimited == 0
	if len(segs) > 0 && segs[0].Op == "lit" && len(segs[0].Str) > 0 {
		sh.FirstByte = int(segs[0].Str[0])
	}
	return sh
}

func isFixedSeg(s *Term) bool { _, ok := segFixedLen(s); return ok }

// fixedTotalLen returns the total length if every segment has fixed width.
func fixedTotalLen(t *Term) (int, bool) {
	n := 0
	for _, s := range segsOf(t) {
		k, ok := segFixedLen(s)
		if !ok {
			return 0, false
		}
		n += k
	}
	return n, true
}

func bytesDistinct(a, b *Term) bool {
	if a == b {
		return false
	}
	if a.Op == "lit" && b.Op == "lit" {
		return a.Str != b.Str
	}
	if a == BNil && isBytesConstruct(b) || b == BNil && isBytesConstruct(a) {
		return true
	}
	if !isBytesConstruct(a) || !isBytesConstruct(b) {
		return false
	}
	sa, sb := shapeOf(a), shapeOf(b)
	if sa.FirstByte >= 0 && sb.FirstByte >= 0 && sa.FirstByte != sb.FirstByte {
		return true
	}
	if la, ok := fixedTotalLen(a); ok {
		if lb, ok2 := fixedTotalLen(b); ok2 && la != lb {
			return true
		}
	}
	if sa.Sig == sb.Sig && sa.Decodable {
		for i := range sa.Args {
			if provablyDistinct(sa.Args[i], sb.Args[i]) {
				return true
			}
		}
	}
	return false
}

func bytesEq(a, b *Term) *Term {
	if !isBytesConstruct(a) || !isBytesConstruct(b) {
		return nil
	}
	sa, sb := shapeOf(a), shapeOf(b)
	if sa.Sig == sb.Sig && sa.Decodable && len(sa.Args) > 0 {
		var cs []*Term
		for i := range sa.Args {
			cs = append(cs, Eq(sa.Args[i], sb.Args[i]))
		}
		return And(cs...)
	}
	return nil
}

func init() {
	DeclareUF("blen", []*Sort{SBytes}, SInt)
	DeclareUF("bat", []*Sort{SBytes, SInt}, SInt)
	DeclareUF("bslice", []*Sort{SBytes, SInt, SInt}, SBytes)
	DeclareUF("bpre", []*Sort{SBytes, SBytes}, SBool)
	DeclareUF("fam", []*Sort{SBytes}, SInt)
	DeclareUF("dec_be8", []*Sort{SBytes}, SInt)
	DeclareUF("dec_be4", []*Sort{SBytes}, SInt)
	DeclareUF("dec_tm", []*Sort{SBytes}, SInt)
	DeclareUF("ok_tm", []*Sort{SBytes}, SBool)
}

func BLen(t *Term) *Term {
	if t == BNil {
		return IntLit(0)
	}
	if t.Op == "ite" {
		return Ite(t.Args[0], BLen(t.Args[1]), BLen(t.Args[2]))
	}
	if !isBytesConstruct(t) {
		return App("blen", t)
	}
	sum := IntLit(0)
	for _, s := range segsOf(t) {
		if k, ok := segFixedLen(s); ok {
			sum = Add(sum, IntLit(int64(k)))
		} else {
			sum = Add(sum, App("blen", s))
		}
	}
	return sum
}

// BPre(p, k): p is a prefix of k.
func BPre(p, k *Term) *Term {
	if p == k {
		return True
	}
	if p.Op == "lit" && p.Str == "" {
		return True
	}
	// syntactic prefix: k = p ++ rest
	{
		ps, ks := segsOf(p), segsOf(k)
		if len(ps) <= len(ks) {
			same := true
			for i := range ps {
				if ps[i] != ks[i] {
					same = false
					break
				}
			}
			if same {
				return True
			}
		}
	}
	if isBytesConstruct(p) && isBytesConstruct(k) {
		sp, sk := shapeOf(p), shapeOf(k)
		if sp.FirstByte >= 0 && sk.FirstByte >= 0 && sp.FirstByte != sk.FirstByte {
			return False
		}
		if sp.FullyDelimited && len(sp.Kinds) <= len(sk.Kinds) {
			ok := true
			for i := range sp.Kinds {
				if sp.Kinds[i] != sk.Kinds[i] {
					ok = false
				}
			}
			if ok {
				var cs []*Term
				for i := range sp.Args {
					cs = append(cs, Eq(sp.Args[i], sk.Args[i]))
				}
				return And(cs...)
			}
			// p = L<x>, k = L<x..>|...: literal prefix of a longer literal first segment
			if len(sp.Kinds) == 1 && p.Op == "lit" {
				ks := segsOf(k)
				if ks[0].Op == "lit" {
					if strings.HasPrefix(ks[0].Str, p.Str) {
						return True
					}
					if !strings.HasPrefix(p.Str, ks[0].Str) {
						return False
					}
				}
			}
		}
	}
	return App("bpre", p, k)
}

func Fam(k *Term) *Term {
	if isBytesConstruct(k) {
		if fb := shapeOf(k).FirstByte; fb >= 0 {
			return IntLit(int64(fb))
		}
	}
	if k.Op == "ite" {
		return Ite(k.Args[0], Fam(k.Args[1]), Fam(k.Args[2]))
	}
	return App("fam", k)
}

func DecBE8(b *Term) *Term {
	if b.Op == "be8" {
		return b.Args[0]
	}
	if b.Op == "cat" && b.Args[0].Op == "be8" {
		return b.Args[0].Args[0]
	}
	if b.Op == "ite" {
		return Ite(b.Args[0], DecBE8(b.Args[1]), DecBE8(b.Args[2]))
	}
	return App("dec_be8", b)
}
func DecBE4(b *Term) *Term {
	if b.Op == "be4" {
		return b.Args[0]
	}
	if b.Op == "cat" && b.Args[0].Op == "be4" {
		return b.Args[0].Args[0]
	}
	if b.Op == "ite" {
		return Ite(b.Args[0], DecBE4(b.Args[1]), DecBE4(b.Args[2]))
	}
	return App("dec_be4", b)
}
func DecTM(b *Term) *Term {
	if b.Op == "tm" {
		return b.Args[0]
	}
	if b.Op == "ite" {
		return Ite(b.Args[0], DecTM(b.Args[1]), DecTM(b.Args[2]))
	}
	return App("dec_tm", b)
}

// pb codec: one pair of functions per tag/sort.
func pbDecName(tag string) string { return "pbdec_" + tag }
func pbOkName(tag string) string  { return "pbok_" + tag }

var pbSorts = map[string]*Sort{}

func declarePB(tag string, s *Sort) {
	if old, ok := pbSorts[tag]; ok {
		if old != s {
			panic("pb tag " + tag + " used with two sorts " + old.Name + " / " + s.Name)
		}
		return
	}
	pbSorts[tag] = s
	DeclareUF(pbDecName(tag), []*Sort{SBytes}, s)
	DeclareUF(pbOkName(tag), []*Sort{SBytes}, SBool)
}

func PBEnc(tag string, x *Term) *Term {
	declarePB(tag, x.Sort)
	return PB(tag, x)
}

func PBDec(tag string, s *Sort, b *Term) *Term {
	declarePB(tag, s)
	if b.Op == "pb" && b.Str == tag {
		return b.Args[0]
	}
	if b.Op == "ite" {
		return Ite(b.Args[0], PBDec(tag, s, b.Args[1]), PBDec(tag, s, b.Args[2]))
	}
	return App(pbDecName(tag), b)
}

func PBOk(tag string, s *Sort, b *Term) *Term {
	declarePB(tag, s)
	if b.Op == "pb" {
		return BoolLit(b.Str == tag)
	}
	if b.Op == "ite" {
		return Ite(b.Args[0], PBOk(tag, s, b.Args[1]), PBOk(tag, s, b.Args[2]))
	}
	if b == BNil {
		return False
	}
	return App(pbOkName(tag), b)
}

func IsNilBytes(b *Term) *Term { return Eq(b, BNil) }
