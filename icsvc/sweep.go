package main

// Source sweeps decided by the generator (no SMT): inventories of constructs that must not appear, or may appear
// only at recorded, justified sites. A site that is not in the committed inventory is a failed obligation.

import (
	"encoding/json"
	"fmt"
	"go/token"
	"go/types"
	"os"
	"path/filepath"
	"sort"
	"strings"

	"golang.org/x/tools/go/ssa"
)

type SweepResult struct {
	Name     string
	OK       bool
	Detail   string
	Found    []string
	Expected []string
}

type Inventory map[string][]string // category -> sites ("pkgdir.Func")

func loadInventory(path string) (Inventory, error) {
	b, err := os.ReadFile(path)
	if err != nil {
		return nil, err
	}
	inv := Inventory{}
	if err := json.Unmarshal(b, &inv); err != nil {
		return nil, err
	}
	return inv, nil
}

func fnSite(fn *ssa.Function) string {
	name := fn.Name()
	if fn.Parent() != nil {
		return fnSite(fn.Parent())
	}
	if recv := fn.Signature.Recv(); recv != nil {
		t := derefType(recv.Type())
		if n, ok := types.Unalias(t).(*types.Named); ok {
			name = n.Obj().Name() + "." + fn.Name()
		}
	}
	return pkgTail(fn) + "." + name
}

// allFunctions: every function with a body in the loaded repository packages (including methods and closures),
// excluding generated protobuf / gateway files and test helpers.
func (ld *Loaded) allFunctions() []*ssa.Function {
	seen := map[*ssa.Function]bool{}
	var out []*ssa.Function
	var add func(fn *ssa.Function)
	add = func(fn *ssa.Function) {
		if fn == nil || seen[fn] || fn.Blocks == nil || fn.Synthetic != "" {
			return
		}
		if fn.Pos().IsValid() {
			f := ld.fset.Position(fn.Pos()).Filename
			if strings.HasSuffix(f, ".pb.go") || strings.HasSuffix(f, ".pb.gw.go") || strings.HasSuffix(f, "_test.go") {
				return
			}
		}
		seen[fn] = true
		out = append(out, fn)
		for _, af := range fn.AnonFuncs {
			add(af)
		}
	}
	for _, p := range ld.spkgs {
		if p == nil {
			continue
		}
		for _, m := range p.Members {
			switch x := m.(type) {
			case *ssa.Function:
				add(x)
			case *ssa.Type:
				for _, T := range []types.Type{x.Type(), types.NewPointer(x.Type())} {
					ms := ld.prog.MethodSets.MethodSet(T)
					for i := 0; i < ms.Len(); i++ {
						add(ld.prog.MethodValue(ms.At(i)))
					}
				}
			}
		}
	}
	sort.Slice(out, func(i, j int) bool { return fnSite(out[i])+out[i].Name() < fnSite(out[j])+out[j].Name() })
	return out
}

func addSite(m map[string]map[string]bool, cat, site string) {
	if m[cat] == nil {
		m[cat] = map[string]bool{}
	}
	m[cat][site] = true
}

// determinismSweep classifies every construct whose result may differ between replicas.
func (ld *Loaded) determinismSweep() map[string]map[string]bool {
	found := map[string]map[string]bool{}
	for _, cat := range []string{"map_range", "concurrency", "wallclock_random_env", "unsafe_pointer", "sort_sites", "map_typed_proto_fields"} {
		found[cat] = map[string]bool{}
	}
	for _, fn := range ld.allFunctions() {
		site := fnSite(fn)
		for _, b := range fn.Blocks {
			for _, in := range b.Instrs {
				switch x := in.(type) {
				case *ssa.Range:
					if _, ok := x.X.Type().Underlying().(*types.Map); ok {
						addSite(found, "map_range", site)
					}
				case *ssa.Go, *ssa.Select, *ssa.Send, *ssa.MakeChan:
					addSite(found, "concurrency", site)
				case *ssa.UnOp:
					if x.Op == token.ARROW {
						addSite(found, "concurrency", site)
					}
				case *ssa.Convert:
					if b, ok := x.Type().Underlying().(*types.Basic); ok && (b.Kind() == types.UnsafePointer || b.Kind() == types.Uintptr) {
						if _, isPtr := x.X.Type().Underlying().(*types.Pointer); isPtr || b.Kind() == types.UnsafePointer {
							addSite(found, "unsafe_pointer", site)
						}
					}
					if b, ok := x.X.Type().Underlying().(*types.Basic); ok && b.Kind() == types.UnsafePointer {
						addSite(found, "unsafe_pointer", site)
					}
				case ssa.CallInstruction:
					c := x.Common()
					if c.IsInvoke() {
						continue
					}
					callee, ok := c.Value.(*ssa.Function)
					if !ok {
						continue
					}
					full := callee.String()
					switch {
					case full == "time.Now" || full == "time.Since" || full == "time.Until" ||
						strings.HasPrefix(full, "math/rand.") || strings.HasPrefix(full, "math/rand/v2.") || strings.HasPrefix(full, "crypto/rand.") ||
						full == "os.Getenv" || full == "os.LookupEnv" || full == "os.Environ" || full == "os.Hostname" || full == "os.Getpid" ||
						strings.HasPrefix(full, "runtime.NumGoroutine") || full == "runtime.NumCPU":
						addSite(found, "wallclock_random_env", site+" -> "+full)
					case full == "sort.Slice" || full == "sort.SliceStable" || full == "sort.Sort" || full == "sort.Strings" || full == "sort.Stable" || strings.HasPrefix(full, "slices.Sort"):
						addSite(found, "sort_sites", site+" -> "+full)
					}
					if strings.Contains(full, "fmt.") {
						// %p in a literal format string prints an address
						for _, a := range c.Args {
							if k, ok := a.(*ssa.Const); ok && k.Value != nil && strings.Contains(k.Value.ExactString(), "%p") {
								addSite(found, "unsafe_pointer", site+" -> %p")
							}
						}
					}
				}
			}
		}
	}
	// protobuf messages with map-typed fields (their wire encoding order is not canonical)
	for _, p := range ld.spkgs {
		if p == nil {
			continue
		}
		for _, m := range p.Members {
			t, ok := m.(*ssa.Type)
			if !ok {
				continue
			}
			st, ok := t.Type().Underlying().(*types.Struct)
			if !ok {
				continue
			}
			pos := ld.fset.Position(t.Pos()).Filename
			if !strings.HasSuffix(pos, ".pb.go") {
				continue
			}
			for i := 0; i < st.NumFields(); i++ {
				if _, isMap := st.Field(i).Type().Underlying().(*types.Map); isMap {
					addSite(found, "map_typed_proto_fields", pkgTailOfPath(p.Pkg.Path())+"."+t.Name()+"."+st.Field(i).Name())
				}
			}
		}
	}
	return found
}

func pkgTailOfPath(p string) string {
	if i := strings.Index(p, "/x/ccv/"); i >= 0 {
		return p[i+len("/x/ccv/"):]
	}
	return p
}

func setToSorted(m map[string]bool) []string {
	var out []string
	for k := range m {
		out = append(out, k)
	}
	sort.Strings(out)
	return out
}

// runSweep compares the found sites with the committed inventory. New sites are violations; vanished sites are reported.
func (ld *Loaded) runSweep(kind, verifDir string) []*SweepResult {
	var found map[string]map[string]bool
	invFile := ""
	switch kind {
	case "determinism":
		found = ld.determinismSweep()
		invFile = filepath.Join(verifDir, "specs", "determinism_inventory.json")
	case "iter_sites":
		found = ld.iterSitesSweep()
		invFile = filepath.Join(verifDir, "specs", "iter_sites_inventory.json")
	default:
		return []*SweepResult{{Name: "sweep:" + kind, OK: false, Detail: "unknown sweep"}}
	}
	if os.Getenv("ICSVC_WRITE_INVENTORY") != "" {
		inv := Inventory{}
		for cat, m := range found {
			inv[cat] = setToSorted(m)
			if inv[cat] == nil {
				inv[cat] = []string{}
			}
		}
		b, _ := json.MarshalIndent(inv, "", " ")
		os.WriteFile(invFile, b, 0o644)
	}
	inv, err := loadInventory(invFile)
	if err != nil {
		return []*SweepResult{{Name: "sweep:" + kind, OK: false, Detail: "inventory missing: " + err.Error()}}
	}
	var out []*SweepResult
	var cats []string
	for c := range found {
		cats = append(cats, c)
	}
	sort.Strings(cats)
	for _, cat := range cats {
		exp := map[string]bool{}
		for _, s := range inv[cat] {
			exp[s] = true
		}
		var extra, gone []string
		for s := range found[cat] {
			if !exp[s] {
				extra = append(extra, s)
			}
		}
		for s := range exp {
			if !found[cat][s] {
				gone = append(gone, s)
			}
		}
		sort.Strings(extra)
		sort.Strings(gone)
		// new sort calls and new iterators whose prefix comes from a delimited key builder are not sources of
		// nondeterminism / cross-consumer leakage by themselves: recorded, never an alarm
		informational := cat == "sort_sites" || cat == "prefix_iterators" || cat == "range_iterators"
		r := &SweepResult{Name: fmt.Sprintf("sweep.%s#inventory:%s", kind, cat), OK: len(extra) == 0 || informational, Found: setToSorted(found[cat]), Expected: inv[cat]}
		if len(extra) > 0 && informational {
			r.Detail = "new sites (informational): " + strings.Join(extra, "; ")
		} else if len(extra) > 0 {
			r.Detail = "sites not in the recorded inventory: " + strings.Join(extra, "; ")
		} else if len(gone) > 0 {
			r.Detail = "recorded sites no longer present (harmless): " + strings.Join(gone, "; ")
		}
		out = append(out, r)
	}
	return out
}

// iterSitesSweep: every store iteration site and the syntactic form of its prefix argument.
// Per-consumer iteration must use a length-prefixed (self-delimiting) consumer id, otherwise id "1" would also
// match the keys of id "10".
func (ld *Loaded) iterSitesSweep() map[string]map[string]bool {
	found := map[string]map[string]bool{"prefix_iterators": {}, "range_iterators": {}, "non_delimited_prefix": {}}
	for _, fn := range ld.allFunctions() {
		site := fnSite(fn)
		for _, b := range fn.Blocks {
			for _, in := range b.Instrs {
				call, ok := in.(ssa.CallInstruction)
				if !ok {
					continue
				}
				c := call.Common()
				if c.IsInvoke() {
					if c.Method.Name() == "Iterator" || c.Method.Name() == "ReverseIterator" {
						if strings.Contains(types.TypeString(c.Value.Type(), nil), "KVStore") {
							addSite(found, "range_iterators", site)
						}
					}
					continue
				}
				callee, ok := c.Value.(*ssa.Function)
				if !ok {
					continue
				}
				if strings.HasSuffix(callee.String(), "store/types.KVStorePrefixIterator") || strings.HasSuffix(callee.String(), "store/types.KVStoreReversePrefixIterator") {
					form := prefixForm(c.Args[1])
					addSite(found, "prefix_iterators", site+" : "+form)
					if strings.Contains(form, "legacy") || strings.Contains(form, "unknown") {
						addSite(found, "non_delimited_prefix", site+" : "+form)
					}
				}
			}
		}
	}
	return found
}

// prefixForm describes how the prefix argument of an iterator is built.
func prefixForm(v ssa.Value) string {
	for depth := 0; depth < 12; depth++ {
		switch x := v.(type) {
		case *ssa.Call:
			if f, ok := x.Call.Value.(*ssa.Function); ok {
				n := f.Name()
				switch {
				case n == "StringIdWithLenKey":
					return "StringIdWithLenKey(prefix, id) [length-prefixed]"
				case strings.HasSuffix(n, "KeyPrefix") || strings.HasSuffix(n, "Prefix"):
					if f.Signature.Params().Len() == 0 {
						return n + "() [whole family]"
					}
					return n + "(...) [builder]"
				case strings.HasSuffix(n, "Key"):
					if f.Signature.Params().Len() == 0 {
						return n + "() [whole family]"
					}
					return n + "(...) [builder]"
				}
				return "call " + n
			}
			return "call"
		case *ssa.Slice:
			// []byte{prefix}
			return "single byte slice [whole family]"
		case *ssa.UnOp:
			if al, ok := x.X.(*ssa.Alloc); ok {
				// local variable: find the stores to it
				var forms []string
				for _, ref := range *al.Referrers() {
					if st, ok := ref.(*ssa.Store); ok && st.Addr == al {
						forms = append(forms, prefixForm(st.Val))
					}
				}
				sort.Strings(forms)
				if len(forms) > 0 {
					return strings.Join(forms, " | ")
				}
			}
			v = x.X
			continue
		case *ssa.Parameter:
			return "parameter " + x.Name()
		case *ssa.Phi:
			var forms []string
			for _, e := range x.Edges {
				forms = append(forms, prefixForm(e))
			}
			return strings.Join(forms, " | ")
		case *ssa.Convert:
			v = x.X
			continue
		case *ssa.ChangeType:
			v = x.X
			continue
		case *ssa.MakeInterface:
			v = x.X
			continue
		}
		break
	}
	return "unknown"
}
