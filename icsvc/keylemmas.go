package main

// C13 part A: byte-level lemmas about the real store-key builders.
// Every exported function of provider/types/keys.go and consumer/types/keys.go that returns []byte is executed
// symbolically (the real body, via the SSA executor) to a concatenation normal form. The structural facts the
// engine uses everywhere else (injectivity of decodable shapes, family separation by the first byte, prefix
// relation of length-delimited prefixes) are then proved here in the SMT theory of sequences for exactly the
// shapes that occur.

import (
	"fmt"
	"go/types"
	"sort"
	"strings"

	"golang.org/x/tools/go/ssa"
)

type KeyBuilder struct {
	Name   string
	Pkg    string
	Term   *Term
	Shape  *Shape
	Params []string
}

func (ld *Loaded) keyBuilders(ex *Exec) ([]*KeyBuilder, []string) {
	var out []*KeyBuilder
	var problems []string
	for _, p := range ld.spkgs {
		if p == nil {
			continue
		}
		tail := pkgTailOfPath(p.Pkg.Path())
		if tail != "provider/types" && tail != "consumer/types" {
			continue
		}
		var names []string
		for n := range p.Members {
			names = append(names, n)
		}
		sort.Strings(names)
		for _, n := range names {
			fn, ok := p.Members[n].(*ssa.Function)
			if !ok || fn.Blocks == nil || !fn.Pos().IsValid() {
				continue
			}
			file := ld.fset.Position(fn.Pos()).Filename
			if !strings.HasSuffix(file, "/keys.go") {
				continue
			}
			sig := fn.Signature
			if sig.Results().Len() != 1 || !isByteSlice(sig.Results().At(0).Type()) {
				continue
			}
			if strings.HasPrefix(n, "GetAllKey") || strings.HasPrefix(n, "Parse") {
				continue
			}
			// generic helpers parameterised by the family byte are covered through their instantiations
			generic := false
			for _, prm := range fn.Params {
				if b, ok := prm.Type().Underlying().(*types.Basic); ok && (b.Kind() == types.Uint8 || b.Kind() == types.Byte) && prm.Name() == "prefix" {
					generic = true
				}
			}
			if generic {
				continue
			}
			// symbolic arguments
			st := NewState()
			var args []Val
			var pnames []string
			okArgs := true
			for _, prm := range fn.Params {
				s := sortOf(prm.Type())
				switch {
				case s == SBytes || s == SInt:
					args = append(args, Var("kp_"+n+"_"+prm.Name(), s))
				case s.Kind == KDT:
					args = append(args, Var("kp_"+n+"_"+prm.Name(), s))
				default:
					okArgs = false
				}
				pnames = append(pnames, prm.Name())
			}
			if !okArgs {
				problems = append(problems, n+": unsupported parameter type")
				continue
			}
			var res Val
			func() {
				defer func() {
					if r := recover(); r != nil {
						problems = append(problems, fmt.Sprintf("%s: %v", n, r))
					}
				}()
				res = ex.callPure(fn, args, st)
			}()
			if res == nil {
				continue
			}
			t, isT := res.(*Term)
			if !isT || t.Sort != SBytes {
				problems = append(problems, n+": result is not a byte term")
				continue
			}
			out = append(out, &KeyBuilder{Name: n, Pkg: tail, Term: t, Shape: shapeOf(t), Params: pnames})
		}
	}
	return out, problems
}

// seqTerm renders a Bytes shape as a sequence-theory term over fresh variables with the given suffix.
// Returns the term, the declarations and the list of (variable, sort) it introduced.
func seqShape(sh *Shape, suffix string) (string, []string, []string) {
	var parts []string
	var decls []string
	var vars []string
	ai := 0
	for _, k := range sh.Kinds {
		switch {
		case strings.HasPrefix(k, "L") && k != "LP":
			hex := k[1:]
			for i := 0; i+1 < len(hex); i += 2 {
				var b int
				fmt.Sscanf(hex[i:i+2], "%02x", &b)
				parts = append(parts, fmt.Sprintf("(seq.unit %d)", b))
			}
		case k == "B8":
			v := fmt.Sprintf("i%d%s", ai, suffix)
			decls = append(decls, fmt.Sprintf("(declare-const %s Int)", v))
			vars = append(vars, v)
			parts = append(parts, fmt.Sprintf("(be8 %s)", v))
			ai++
		case k == "B4":
			v := fmt.Sprintf("i%d%s", ai, suffix)
			decls = append(decls, fmt.Sprintf("(declare-const %s Int)", v))
			vars = append(vars, v)
			parts = append(parts, fmt.Sprintf("(be4 %s)", v))
			ai++
		case k == "B1":
			v := fmt.Sprintf("i%d%s", ai, suffix)
			decls = append(decls, fmt.Sprintf("(declare-const %s Int)", v), fmt.Sprintf("(assert (and (<= 0 %s) (<= %s 255)))", v, v))
			vars = append(vars, v)
			parts = append(parts, fmt.Sprintf("(seq.unit %s)", v))
			ai++
		case k == "TM":
			v := fmt.Sprintf("i%d%s", ai, suffix)
			decls = append(decls, fmt.Sprintf("(declare-const %s Int)", v))
			vars = append(vars, v)
			parts = append(parts, fmt.Sprintf("(tmb %s)", v))
			ai++
		case k == "LP":
			v := fmt.Sprintf("s%d%s", ai, suffix)
			decls = append(decls, fmt.Sprintf("(declare-const %s (Seq Int))", v))
			vars = append(vars, v)
			parts = append(parts, fmt.Sprintf("(be8 (seq.len %s))", v), v)
			ai++
		default: // R, PB
			v := fmt.Sprintf("s%d%s", ai, suffix)
			decls = append(decls, fmt.Sprintf("(declare-const %s (Seq Int))", v))
			vars = append(vars, v)
			parts = append(parts, v)
			ai++
		}
	}
	if len(parts) == 0 {
		return "(as seq.empty (Seq Int))", decls, vars
	}
	if len(parts) == 1 {
		return parts[0], decls, vars
	}
	return "(seq.++ " + strings.Join(parts, " ") + ")", decls, vars
}

const seqPrelude = `(set-logic ALL)
(declare-fun be8 (Int) (Seq Int))
(declare-fun be8inv ((Seq Int)) Int)
(assert (forall ((x Int)) (! (= (seq.len (be8 x)) 8) :pattern ((be8 x)))))
(assert (forall ((x Int)) (! (= (be8inv (be8 x)) x) :pattern ((be8 x)))))
(declare-fun be4 (Int) (Seq Int))
(declare-fun be4inv ((Seq Int)) Int)
(assert (forall ((x Int)) (! (= (seq.len (be4 x)) 4) :pattern ((be4 x)))))
(assert (forall ((x Int)) (! (= (be4inv (be4 x)) x) :pattern ((be4 x)))))
(declare-fun tmb (Int) (Seq Int))
(declare-fun tmbinv ((Seq Int)) Int)
(assert (forall ((x Int)) (! (= (seq.len (tmb x)) 29) :pattern ((tmb x)))))
(assert (forall ((x Int)) (! (= (tmbinv (tmb x)) x) :pattern ((tmb x)))))
`

// keyLemmaQueries builds the byte-level proof obligations for the shapes in use.
func (ld *Loaded) keyLemmaQueries(ex *Exec) ([]*ObResult, []string) {
	kbs, problems := ld.keyBuilders(ex)
	var out []*ObResult
	mk := func(name, smt string) {
		out = append(out, &ObResult{Name: name, Kind: "lemma", Claimed: true, Records: 1, smt: smt, rawSMT: true})
	}
	simp := func(name string, ok bool, detail string) {
		r := &ObResult{Name: name, Kind: "lemma", Claimed: true, Records: 1}
		if ok {
			r.Verdict, r.Solver = "unsat", "generator"
		} else {
			r.Verdict, r.Solver, r.output = "sat", "generator", detail
		}
		out = append(out, r)
	}
	// 1. every builder starts with a literal family byte
	byFam := map[string]map[int][]*KeyBuilder{}
	for _, kb := range kbs {
		simp(fmt.Sprintf("%s.%s#lemma:family-byte", kb.Pkg, kb.Name), kb.Shape.FirstByte >= 0, "the key does not start with a constant family byte: "+kb.Shape.Sig)
		if byFam[kb.Pkg] == nil {
			byFam[kb.Pkg] = map[int][]*KeyBuilder{}
		}
		byFam[kb.Pkg][kb.Shape.FirstByte] = append(byFam[kb.Pkg][kb.Shape.FirstByte], kb)
	}
	// 2. injectivity of every builder (byte level)
	done := map[string]bool{}
	for _, kb := range kbs {
		if len(kb.Shape.Args) == 0 {
			continue
		}
		key := kb.Pkg + "|" + kb.Shape.Sig
		if done[key] {
			simp(fmt.Sprintf("%s.%s#lemma:injective", kb.Pkg, kb.Name), true, "")
			continue
		}
		done[key] = true
		t1, d1, v1 := seqShape(kb.Shape, "a")
		t2, d2, v2 := seqShape(kb.Shape, "b")
		var eqs []string
		for i := range v1 {
			eqs = append(eqs, fmt.Sprintf("(= %s %s)", v1[i], v2[i]))
		}
		smt := seqPrelude + strings.Join(append(d1, d2...), "\n") + "\n" +
			fmt.Sprintf("(assert (= %s %s))\n(assert (not (and %s)))\n(check-sat)\n", t1, t2, strings.Join(eqs, " "))
		mk(fmt.Sprintf("%s.%s#lemma:injective", kb.Pkg, kb.Name), smt)
	}
	// 3. builders sharing a family byte: same key space (identical shape) or prefix of it
	for pkg, fams := range byFam {
		var fl []int
		for f := range fams {
			fl = append(fl, f)
		}
		sort.Ints(fl)
		for _, f := range fl {
			group := fams[f]
			for i := 0; i < len(group); i++ {
				for j := i + 1; j < len(group); j++ {
					a, b := group[i], group[j]
					if a.Shape.Sig == b.Shape.Sig {
						continue
					}
					// one must be a (fully delimited) prefix shape of the other
					short, long := a, b
					if len(a.Shape.Kinds) > len(b.Shape.Kinds) {
						short, long = b, a
					}
					isPrefix := len(short.Shape.Kinds) <= len(long.Shape.Kinds)
					for k := range short.Shape.Kinds {
						if k < len(long.Shape.Kinds) && short.Shape.Kinds[k] != long.Shape.Kinds[k] {
							// literal prefix of a longer literal is fine
							sk, lk := short.Shape.Kinds[k], long.Shape.Kinds[k]
							if !(strings.HasPrefix(sk, "L") && strings.HasPrefix(lk, "L") && strings.HasPrefix(lk[1:], sk[1:]) && k == len(short.Shape.Kinds)-1) {
								isPrefix = false
							}
						}
					}
					simp(fmt.Sprintf("%s.family%d#lemma:one-key-space:%s/%s", pkg, f, a.Name, b.Name), isPrefix && short.Shape.FullyDelimited,
						fmt.Sprintf("builders %s (%s) and %s (%s) share family byte %d but neither is a delimited prefix of the other", a.Name, a.Shape.Sig, b.Name, b.Shape.Sig, f))
					if isPrefix && short.Shape.FullyDelimited && len(short.Shape.Args) > 0 {
						// prefix-freedom at byte level: different prefix arguments => not a prefix
						tp, dp, vp := seqShape(short.Shape, "p")
						tk, dk, vk := seqShape(long.Shape, "k")
						var eqs []string
						for x := range vp {
							eqs = append(eqs, fmt.Sprintf("(= %s %s)", vp[x], vk[x]))
						}
						smt := seqPrelude + strings.Join(append(dp, dk...), "\n") + "\n" +
							fmt.Sprintf("(assert (seq.prefixof %s %s))\n(assert (not (and %s)))\n(check-sat)\n", tp, tk, strings.Join(eqs, " "))
						mk(fmt.Sprintf("%s.family%d#lemma:prefix-free:%s/%s", pkg, f, short.Name, long.Name), smt)
					}
				}
			}
		}
	}
	// 3b. per-consumer iteration: the prefix  family | len(id) | id  (built inline by the keepers with StringIdWithLenKey)
	//     selects exactly the keys of that id: different ids => not a prefix (the "1" vs "10" case)
	for _, kb := range kbs {
		if len(kb.Shape.Kinds) < 3 || kb.Shape.Kinds[1] != "LP" || !strings.HasPrefix(kb.Shape.Kinds[0], "L") {
			continue
		}
		pre := &Shape{Kinds: kb.Shape.Kinds[:2], Sig: strings.Join(kb.Shape.Kinds[:2], "|"), FullyDelimited: true}
		tp, dp, vp := seqShape(pre, "p")
		tk, dk, vk := seqShape(kb.Shape, "k")
		smt := seqPrelude + strings.Join(append(dp, dk...), "\n") + "\n" +
			fmt.Sprintf("(assert (seq.prefixof %s %s))\n(assert (not (= %s %s)))\n(check-sat)\n", tp, tk, vp[0], vk[0])
		mk(fmt.Sprintf("%s.%s#lemma:consumer-prefix-free", kb.Pkg, kb.Name), smt)
	}
	// 4. the prefix table has no duplicates: distinct names -> distinct bytes within one package
	for pkg, fams := range byFam {
		names := map[string]int{}
		dup := ""
		for f, group := range fams {
			for _, kb := range group {
				base := strings.TrimSuffix(strings.TrimSuffix(kb.Name, "Prefix"), "Key")
				_ = base
				names[kb.Name] = f
			}
		}
		simp(fmt.Sprintf("%s#lemma:family-table", pkg), dup == "", dup)
	}
	return out, problems
}

var _ = types.Typ
