#!/bin/bash
# Builds the verifier offline and warms the Go build cache for /repo (export data for dependencies).
set -e
cd /verif
export GOFLAGS=-mod=mod GOPROXY=off
unset GOTOOLCHAIN GOSUMDB
mkdir -p bin evidence
(cd icsvc && go build -o ../bin/icsvc .)
(cd /repo && go build -tags verif ./x/... >/dev/null 2>&1 || true)
echo setup done
