// copy to: x/ccv/provider/keeper/
package keeper_test

// Replay of defect F1: an accepted MsgUpdateConsumer can make BeginBlockLaunchConsumers
// return an error, which halts block processing of the provider chain.
//
//	1. MsgCreateConsumer{ChainId: "foo-1", InitialHeight: {1, 10}, SpawnTime: future}
//	   -> consumer is INITIALIZED and queued for launch
//	2. MsgUpdateConsumer{NewChainId: "foo-2", InitializationParameters: nil} by the owner
//	   -> accepted; stored chain id is "foo-2", stored InitialHeight keeps revision 1
//	3. the spawn time passes; BeginBlockLaunchConsumers cannot launch the consumer and its fall-back
//	   (reset the spawn time with SetConsumerInitializationParameters) fails the revision check
//	   -> BeginBlockLaunchConsumers returns an error
//
// Property checked (for every variant below):
//
//	BeginBlockLaunchConsumers returns nil after any sequence of ACCEPTED messages.
//
// A message that is rejected by the message server is not part of the sequence (its state changes are
// discarded, as the SDK does for a failed transaction), and the begin-blocker still has to return nil.
//
// run with:
//
//	go test -vet=off -count=1 ./x/ccv/provider/keeper/ -run TestReplayF1 -v

import (
	"fmt"
	"testing"
	"time"

	clienttypes "github.com/cosmos/ibc-go/v10/modules/core/02-client/types"
	ibchost "github.com/cosmos/ibc-go/v10/modules/core/exported"
	ibctmtypes "github.com/cosmos/ibc-go/v10/modules/light-clients/07-tendermint"
	"github.com/golang/mock/gomock"
	"github.com/stretchr/testify/require"

	"cosmossdk.io/math"

	sdk "github.com/cosmos/cosmos-sdk/types"
	stakingtypes "github.com/cosmos/cosmos-sdk/x/staking/types"

	cryptotestutil "github.com/cosmos/interchain-security/v7/testutil/crypto"
	testkeeper "github.com/cosmos/interchain-security/v7/testutil/keeper"
	providerkeeper "github.com/cosmos/interchain-security/v7/x/ccv/provider/keeper"
	providertypes "github.com/cosmos/interchain-security/v7/x/ccv/provider/types"
)

// replayF1DeliverTx runs a message handler the way the SDK runs a transaction:
// the state changes are only kept if the handler does not return an error.
func replayF1DeliverTx(ctx sdk.Context, handler func(ctx sdk.Context) error) error {
	cachedCtx, writeFn := ctx.CacheContext()
	if err := handler(cachedCtx); err != nil {
		return err
	}
	writeFn()
	return nil
}

func TestReplayF1_UpdateConsumerChainIdKeepsInitialHeightConsistent(t *testing.T) {
	const (
		owner      = "cosmos1dkas8mu4kyhl5jrh4nzvm65qz588hy9qcz08la"
		oldChainId = "foo-1"
		newChainId = "foo-2"
	)

	testCases := []struct {
		name string
		// optedIn: whether the (single) bonded validator is opted in on the consumer chain.
		// - false: the launch fails in LaunchConsumer ("no consumer validator")
		// - true:  the launch gets as far as clientKeeper.CreateClient; the mocked client keeper performs the
		//          same check as the 07-tendermint light client module (ClientState.Validate) and hence
		//          rejects a client state whose latest height revision does not match the chain id revision
		optedIn bool
	}{
		{name: "no opted-in validator", optedIn: false},
		{name: "opted-in validator and IBC client keeper validating the client state", optedIn: true},
	}

	for _, tc := range testCases {
		t.Run(tc.name, func(t *testing.T) {
			providerKeeper, ctx, ctrl, mocks := testkeeper.GetProviderKeeperAndCtx(t, testkeeper.NewInMemKeeperParams(t))
			defer ctrl.Finish()
			providerKeeper.SetParams(ctx, providertypes.DefaultParams())

			now := time.Now().UTC()
			spawnTime := now.Add(time.Hour)
			ctx = ctx.WithBlockTime(now)

			//
			// mocked keepers
			//
			mocks.MockSlashingKeeper.EXPECT().DowntimeJailDuration(gomock.Any()).Return(time.Second*600, nil).AnyTimes()
			mocks.MockSlashingKeeper.EXPECT().SlashFractionDoubleSign(gomock.Any()).Return(math.LegacyNewDec(0), nil).AnyTimes()
			mocks.MockStakingKeeper.EXPECT().UnbondingTime(gomock.Any()).Return(21*24*time.Hour, nil).AnyTimes()
			mocks.MockStakingKeeper.EXPECT().GetHistoricalInfo(gomock.Any(), gomock.Any()).AnyTimes()

			validator := cryptotestutil.NewCryptoIdentityFromIntSeed(0).SDKStakingValidator()
			consAddr, err := validator.GetConsAddr()
			require.NoError(t, err)
			valAddr, err := sdk.ValAddressFromBech32(validator.GetOperator())
			require.NoError(t, err)
			testkeeper.SetupMocksForLastBondedValidatorsExpectation(mocks.MockStakingKeeper, 1, []stakingtypes.Validator{validator}, -1)
			mocks.MockStakingKeeper.EXPECT().GetLastValidatorPower(gomock.Any(), valAddr).Return(int64(1), nil).AnyTimes()

			// The mocked IBC client keeper validates the client state like the real one does:
			// 02-client CreateClient -> 07-tendermint LightClientModule.Initialize -> ClientState.Validate
			createClientCalls, createClientErrors := 0, 0
			mocks.MockClientKeeper.EXPECT().CreateClient(gomock.Any(), gomock.Any(), gomock.Any(), gomock.Any()).DoAndReturn(
				func(_ sdk.Context, clientType string, clientStateBz, _ []byte) (string, error) {
					createClientCalls++
					require.Equal(t, ibchost.Tendermint, clientType)
					var clientState ibctmtypes.ClientState
					if err := clientState.Unmarshal(clientStateBz); err != nil {
						createClientErrors++
						return "", err
					}
					if err := clientState.Validate(); err != nil {
						createClientErrors++
						t.Logf("clientKeeper.CreateClient(chain id %s, latest height %s) rejected: %s",
							clientState.ChainId, clientState.LatestHeight, err)
						return "", err
					}
					t.Logf("clientKeeper.CreateClient(chain id %s, latest height %s) accepted",
						clientState.ChainId, clientState.LatestHeight)
					return "07-tendermint-0", nil
				}).AnyTimes()

			msgServer := providerkeeper.NewMsgServerImpl(&providerKeeper)
			acceptedMsgs := []string{}

			//
			// 1. MsgCreateConsumer "foo-1" with initial height {1, 10} and a spawn time in the future
			//
			initializationParameters := testkeeper.GetTestInitializationParameters()
			initializationParameters.InitialHeight = clienttypes.NewHeight(1, 10)
			initializationParameters.SpawnTime = spawnTime
			msgCreate := &providertypes.MsgCreateConsumer{
				Submitter:                owner,
				ChainId:                  oldChainId,
				Metadata:                 testkeeper.GetTestConsumerMetadata(),
				InitializationParameters: &initializationParameters,
			}
			require.NoError(t, msgCreate.ValidateBasic())

			var consumerId string
			err = replayF1DeliverTx(ctx, func(ctx sdk.Context) error {
				resp, err := msgServer.CreateConsumer(ctx, msgCreate)
				if err == nil {
					consumerId = resp.ConsumerId
				}
				return err
			})
			require.NoError(t, err, "setup: MsgCreateConsumer has to be accepted")
			acceptedMsgs = append(acceptedMsgs, "MsgCreateConsumer(foo-1, initial height 1-10)")

			require.Equal(t, providertypes.CONSUMER_PHASE_INITIALIZED, providerKeeper.GetConsumerPhase(ctx, consumerId))
			queued, err := providerKeeper.GetConsumersToBeLaunched(ctx, spawnTime)
			require.NoError(t, err)
			require.Equal(t, []string{consumerId}, queued.Ids, "setup: the consumer has to be queued for launch")

			if tc.optedIn {
				providerKeeper.SetOptedIn(ctx, consumerId, providertypes.NewProviderConsAddress(consAddr))
			}

			// the spawn time is not reached: nothing to do for the begin-blocker
			require.NoError(t, providerKeeper.BeginBlockLaunchConsumers(ctx))
			require.Equal(t, providertypes.CONSUMER_PHASE_INITIALIZED, providerKeeper.GetConsumerPhase(ctx, consumerId))

			//
			// 2. MsgUpdateConsumer by the owner: new chain id "foo-2" (revision 2), NO initialization parameters
			//
			msgUpdate := &providertypes.MsgUpdateConsumer{
				Owner:                    owner,
				ConsumerId:               consumerId,
				NewChainId:               newChainId,
				InitializationParameters: nil,
			}
			require.NoError(t, msgUpdate.ValidateBasic())

			updateErr := replayF1DeliverTx(ctx, func(ctx sdk.Context) error {
				_, err := msgServer.UpdateConsumer(ctx, msgUpdate)
				return err
			})
			if updateErr == nil {
				acceptedMsgs = append(acceptedMsgs, "MsgUpdateConsumer(new chain id foo-2, no initialization parameters)")
				t.Logf("MsgUpdateConsumer was ACCEPTED")
			} else {
				t.Logf("MsgUpdateConsumer was REJECTED (not part of the accepted sequence): %s", updateErr)
			}

			storedChainId, err := providerKeeper.GetConsumerChainId(ctx, consumerId)
			require.NoError(t, err)
			storedInitializationParameters, err := providerKeeper.GetConsumerInitializationParameters(ctx, consumerId)
			require.NoError(t, err)
			t.Logf("stored state: chain id %q (revision %d), initial height %s, phase %s",
				storedChainId, clienttypes.ParseChainID(storedChainId),
				storedInitializationParameters.InitialHeight, providerKeeper.GetConsumerPhase(ctx, consumerId))
			if err := providertypes.ValidateInitialHeight(storedInitializationParameters.InitialHeight, storedChainId); err != nil {
				t.Logf("stored state is INCONSISTENT: %s", err)
			}
			if updateErr != nil {
				// a rejected message must not have changed anything
				require.Equal(t, oldChainId, storedChainId)
			}

			//
			// 3. the spawn time passes
			//
			ctx = ctx.WithBlockTime(spawnTime.Add(time.Minute))
			beginBlockErr := providerKeeper.BeginBlockLaunchConsumers(ctx)

			t.Logf("accepted messages: %v", acceptedMsgs)
			t.Logf("CreateClient calls: %d (rejected: %d); phase after BeginBlock: %s",
				createClientCalls, createClientErrors, providerKeeper.GetConsumerPhase(ctx, consumerId))

			// THE PROPERTY: after a sequence of accepted messages the begin-blocker does not return an error
			// (an error returned from BeginBlock halts the chain)
			require.NoError(t, beginBlockErr, fmt.Sprintf(
				"BeginBlockLaunchConsumers returned an error (chain halt) after the accepted messages %v", acceptedMsgs))

			// and the begin-blocker keeps working in the following blocks
			ctx = ctx.WithBlockTime(spawnTime.Add(2 * time.Minute))
			require.NoError(t, providerKeeper.BeginBlockLaunchConsumers(ctx))

			// the consumer was either launched or moved back to REGISTERED so that the owner can try again
			phase := providerKeeper.GetConsumerPhase(ctx, consumerId)
			require.Contains(t,
				[]providertypes.ConsumerPhase{providertypes.CONSUMER_PHASE_LAUNCHED, providertypes.CONSUMER_PHASE_REGISTERED},
				phase)
		})
	}
}
