// copy to: x/ccv/provider/keeper/
package keeper_test

// Replay of defect F2: two consumer chains get bound to the same IBC client.
//
// Two consumers with the same chain id (which is allowed) are created with initialization parameters that
// carry the same non-empty ConnectionId. Launching a consumer calls MakeConsumerGenesis, which, if a
// connection id is provided, binds the consumer to the client of that connection with
// SetConsumerClientId(ctx, consumerId, clientId) -- without checking whether the client already belongs to
// another consumer. Afterwards both consumers have the same client id and the reverse index
// (client id -> consumer id) only knows the second consumer.
//
// Property checked:
//
//	after any successful calls of MakeConsumerGenesis, no two consumers have the same client id, and
//	GetClientIdToConsumerId(GetConsumerClientId(c)) == c for every consumer c with a client id.
//
// run with:
//
//	go test -vet=off -count=1 ./x/ccv/provider/keeper/ -run TestReplayF2 -v

import (
	"testing"
	"time"

	clienttypes "github.com/cosmos/ibc-go/v10/modules/core/02-client/types"
	conntypes "github.com/cosmos/ibc-go/v10/modules/core/03-connection/types"
	ibctmtypes "github.com/cosmos/ibc-go/v10/modules/light-clients/07-tendermint"
	"github.com/golang/mock/gomock"
	"github.com/stretchr/testify/assert"
	"github.com/stretchr/testify/require"

	"cosmossdk.io/math"

	abci "github.com/cometbft/cometbft/abci/types"

	testkeeper "github.com/cosmos/interchain-security/v7/testutil/keeper"
	providerkeeper "github.com/cosmos/interchain-security/v7/x/ccv/provider/keeper"
	providertypes "github.com/cosmos/interchain-security/v7/x/ccv/provider/types"
)

func TestReplayF2_ConnectionClientBoundToOneConsumer(t *testing.T) {
	const (
		chainId                  = "foo-1"
		connectionId             = "connection-0"
		counterpartyConnectionId = "connection-7"
		clientIdOfConnection     = "07-tendermint-0"
	)

	providerKeeper, ctx, ctrl, mocks := testkeeper.GetProviderKeeperAndCtx(t, testkeeper.NewInMemKeeperParams(t))
	defer ctrl.Finish()
	providerKeeper.SetParams(ctx, providertypes.DefaultParams())

	now := time.Now().UTC()
	ctx = ctx.WithBlockTime(now)

	//
	// mocked keepers: connection-0 exists and is built on top of the Tendermint client 07-tendermint-0 of chain foo-1
	//
	mocks.MockSlashingKeeper.EXPECT().DowntimeJailDuration(gomock.Any()).Return(time.Second*600, nil).AnyTimes()
	mocks.MockSlashingKeeper.EXPECT().SlashFractionDoubleSign(gomock.Any()).Return(math.LegacyNewDec(0), nil).AnyTimes()
	mocks.MockConnectionKeeper.EXPECT().GetConnection(gomock.Any(), connectionId).Return(
		conntypes.ConnectionEnd{
			ClientId:     clientIdOfConnection,
			Counterparty: conntypes.Counterparty{ConnectionId: counterpartyConnectionId},
		}, true,
	).AnyTimes()
	mocks.MockClientKeeper.EXPECT().GetClientState(gomock.Any(), clientIdOfConnection).Return(
		&ibctmtypes.ClientState{ChainId: chainId, LatestHeight: clienttypes.NewHeight(1, 100)}, true,
	).AnyTimes()

	//
	// two consumers with the same chain id and the same connection id, created with (valid) MsgCreateConsumer messages
	//
	msgServer := providerkeeper.NewMsgServerImpl(&providerKeeper)
	consumerIds := []string{}
	for _, submitter := range []string{"submitter0", "submitter1"} {
		initializationParameters := testkeeper.GetTestInitializationParameters()
		initializationParameters.InitialHeight = clienttypes.NewHeight(1, 10)
		initializationParameters.SpawnTime = now.Add(time.Hour)
		initializationParameters.ConnectionId = connectionId
		msg := &providertypes.MsgCreateConsumer{
			Submitter:                submitter,
			ChainId:                  chainId,
			Metadata:                 testkeeper.GetTestConsumerMetadata(),
			InitializationParameters: &initializationParameters,
		}
		require.NoError(t, msg.ValidateBasic())
		resp, err := msgServer.CreateConsumer(ctx, msg)
		require.NoError(t, err, "setup: MsgCreateConsumer has to be accepted")
		require.Equal(t, providertypes.CONSUMER_PHASE_INITIALIZED, providerKeeper.GetConsumerPhase(ctx, resp.ConsumerId))
		consumerIds = append(consumerIds, resp.ConsumerId)
	}
	require.Len(t, consumerIds, 2)
	require.NotEqual(t, consumerIds[0], consumerIds[1])

	//
	// launch both: MakeConsumerGenesis is called by LaunchConsumer in a cached context that is
	// only written if the launch succeeds (see BeginBlockLaunchConsumers)
	//
	successfulCalls := 0
	for _, consumerId := range consumerIds {
		cachedCtx, writeFn := ctx.CacheContext()
		gen, err := providerKeeper.MakeConsumerGenesis(cachedCtx, consumerId, []abci.ValidatorUpdate{})
		if err != nil {
			t.Logf("MakeConsumerGenesis(consumer %s) FAILED: %s", consumerId, err)
			continue
		}
		writeFn()
		successfulCalls++
		require.True(t, gen.PreCCV)
		require.Equal(t, counterpartyConnectionId, gen.ConnectionId)
		clientId, _ := providerKeeper.GetConsumerClientId(ctx, consumerId)
		t.Logf("MakeConsumerGenesis(consumer %s) SUCCEEDED: consumer is bound to client %q", consumerId, clientId)
	}

	// not vacuous: the first consumer can use the connection and is bound to its client
	require.GreaterOrEqual(t, successfulCalls, 1, "the first consumer has to be able to use the connection")
	firstClientId, found := providerKeeper.GetConsumerClientId(ctx, consumerIds[0])
	require.True(t, found, "the first consumer has to be bound to a client")
	require.Equal(t, clientIdOfConnection, firstClientId)

	//
	// THE PROPERTY: consumers and clients are bound one-to-one
	// (checked with assert, so that all the violations are reported)
	//
	reverse, reverseFound := providerKeeper.GetClientIdToConsumerId(ctx, clientIdOfConnection)
	t.Logf("successful calls: %d; GetClientIdToConsumerId(%s) = (%q, %v)", successfulCalls, clientIdOfConnection, reverse, reverseFound)

	consumerOfClient := map[string]string{}
	for _, consumerId := range consumerIds {
		clientId, found := providerKeeper.GetConsumerClientId(ctx, consumerId)
		t.Logf("GetConsumerClientId(%s) = (%q, %v)", consumerId, clientId, found)
		if !found {
			continue
		}

		// no two consumers have the same client id
		otherConsumerId, shared := consumerOfClient[clientId]
		assert.False(t, shared, "consumers %s and %s are both bound to client %s", otherConsumerId, consumerId, clientId)
		if !shared {
			consumerOfClient[clientId] = consumerId
		}

		// the reverse index leads back to the consumer
		reverseConsumerId, found := providerKeeper.GetClientIdToConsumerId(ctx, clientId)
		assert.True(t, found, "no reverse index entry for client %s of consumer %s", clientId, consumerId)
		assert.Equal(t, consumerId, reverseConsumerId,
			"GetClientIdToConsumerId(GetConsumerClientId(%s)) = %s", consumerId, reverseConsumerId)
	}
}
