// copy to: x/ccv/provider/keeper/
package keeper_test

// Replay of finding F3: Keeper.ComputeNextValidators (validator_set_update.go) decides
// which bonded validators "participate in consensus on the provider" by re-sorting the
// bonded validators by *bonded tokens* and keeping the first MaxProviderConsensusValidators.
// The provider's real active consensus set (Keeper.GetLastProviderConsensusActiveValidators,
// used by ProviderValidatorUpdates / QueueVSCPackets in relay.go) is the first
// MaxProviderConsensusValidators validators of stakingKeeper.GetBondedValidatorsByPower, i.e.
// in the staking module's order: by *consensus power* (tokens / powerReduction, truncated),
// ties broken by operator address. For two validators with equal power but different token
// amounts at the boundary the two orders can disagree, and a consumer chain with
// AllowInactiveVals == false gets a validator that is NOT in the provider's active set.

import (
	"bytes"
	"testing"

	"github.com/golang/mock/gomock"
	"github.com/stretchr/testify/require"

	"cosmossdk.io/math"

	addresscodec "github.com/cosmos/cosmos-sdk/codec/address"
	sdk "github.com/cosmos/cosmos-sdk/types"
	stakingtypes "github.com/cosmos/cosmos-sdk/x/staking/types"

	testkeeper "github.com/cosmos/interchain-security/v7/testutil/keeper"
	providertypes "github.com/cosmos/interchain-security/v7/x/ccv/provider/types"
)

// TestReplayF3_ConsumerSetWithinProviderActiveSet checks the property
//
//	"unless the consumer allows inactive validators, every consumer validator
//	 belongs to the provider's own active consensus set"
//
// on a minimal state: MaxProviderConsensusValidators = 1 and two bonded validators with the
// same voting power (5) but different token amounts.
func TestReplayF3_ConsumerSetWithinProviderActiveSet(t *testing.T) {
	providerKeeper, ctx, ctrl, mocks := testkeeper.GetProviderKeeperAndCtx(t, testkeeper.NewInMemKeeperParams(t))
	defer ctrl.Finish()

	consumerId := CONSUMER_ID

	// (1) the provider runs consensus with a single validator
	params := providerKeeper.GetParams(ctx)
	params.MaxProviderConsensusValidators = 1
	providerKeeper.SetParams(ctx, params)
	require.Equal(t, int64(1), providerKeeper.GetMaxProviderConsensusValidators(ctx))

	// (2) two bonded validators with EQUAL last validator power 5 (the existing helper also
	// installs the GetLastValidatorPower mock returning 5 for each of them)
	const power = int64(5)
	v0 := createStakingValidator(ctx, mocks, power, 0)
	v1 := createStakingValidator(ctx, mocks, power, 1)

	// Both token amounts map to consensus power 5 under the default power reduction (10^6):
	// 5_100_000 / 10^6 = 5 and 5_900_000 / 10^6 = 5 (truncated).
	fewerTokens := math.NewInt(5_100_000)
	moreTokens := math.NewInt(5_900_000)
	require.Equal(t, power, sdk.TokensToConsensusPower(fewerTokens, sdk.DefaultPowerReduction))
	require.Equal(t, power, sdk.TokensToConsensusPower(moreTokens, sdk.DefaultPowerReduction))

	// (3) Determine the order in which the REAL staking module would return the two validators
	// from GetBondedValidatorsByPower. The staking keeper reverse-iterates the store keys built by
	// stakingtypes.GetValidatorsByPowerIndexKey (prefix | big-endian power | len | ^operatorAddr):
	// the validator with the GREATER key comes first. As the powers are equal, the order is
	// decided by the operator address only and is independent of the token amounts, so we are
	// free to give the validator that comes first (B) fewer tokens than the other one (A).
	valAc := addresscodec.NewBech32Codec(sdk.GetConfig().GetBech32ValidatorAddrPrefix())
	powerIndexKey := func(v stakingtypes.Validator) []byte {
		// the index key only depends on the consensus power and the operator address
		v.Tokens = fewerTokens
		return stakingtypes.GetValidatorsByPowerIndexKey(v, sdk.DefaultPowerReduction, valAc)
	}
	var valA, valB stakingtypes.Validator
	if bytes.Compare(powerIndexKey(v0), powerIndexKey(v1)) > 0 {
		valB, valA = v0, v1
	} else {
		valB, valA = v1, v0
	}
	valB.Tokens = fewerTokens // B: first in staking order, power 5, tokens 5_100_000
	valA.Tokens = moreTokens  // A: second in staking order, power 5, tokens 5_900_000

	// sanity checks on the legality of the staking order [B, A], using the final token amounts
	keyA := stakingtypes.GetValidatorsByPowerIndexKey(valA, sdk.DefaultPowerReduction, valAc)
	keyB := stakingtypes.GetValidatorsByPowerIndexKey(valB, sdk.DefaultPowerReduction, valAc)
	require.True(t, bytes.Compare(keyB, keyA) > 0,
		"staking's reverse iteration over the power index must yield B before A")
	require.Equal(t, valA.GetConsensusPower(sdk.DefaultPowerReduction), valB.GetConsensusPower(sdk.DefaultPowerReduction))
	require.True(t, valA.GetBondedTokens().GT(valB.GetBondedTokens()), "A has more tokens than B")
	require.True(t, valA.IsBonded() && valB.IsBonded())

	stakingOrder := []stakingtypes.Validator{valB, valA}

	consAddrOf := func(v stakingtypes.Validator) providertypes.ProviderConsAddress {
		consAddr, err := v.GetConsAddr()
		require.NoError(t, err)
		return providertypes.NewProviderConsAddress(consAddr)
	}
	consAddrA, consAddrB := consAddrOf(valA), consAddrOf(valB)

	// the mocked staking keeper answers in the staking order [B, A]; a fresh slice is returned
	// on every call so that no caller can disturb the order seen by another one
	mocks.MockStakingKeeper.EXPECT().GetBondedValidatorsByPower(gomock.Any()).DoAndReturn(
		func(interface{}) ([]stakingtypes.Validator, error) {
			return append([]stakingtypes.Validator{}, stakingOrder...), nil
		}).AnyTimes()
	mocks.MockStakingKeeper.EXPECT().GetValidatorByConsAddr(gomock.Any(), consAddrA.Address).Return(valA, nil).AnyTimes()
	mocks.MockStakingKeeper.EXPECT().GetValidatorByConsAddr(gomock.Any(), consAddrB.Address).Return(valB, nil).AnyTimes()

	// opt-in consumer chain (Top_N = 0) that does NOT allow inactive validators and has no
	// caps, no allow/deny/priority lists and no min stake; both validators are opted in
	err := providerKeeper.SetConsumerPowerShapingParameters(ctx, consumerId, providertypes.PowerShapingParameters{
		Top_N:             0,
		AllowInactiveVals: false,
	})
	require.NoError(t, err)
	providerKeeper.SetOptedIn(ctx, consumerId, consAddrA)
	providerKeeper.SetOptedIn(ctx, consumerId, consAddrB)

	powerShapingParameters, err := providerKeeper.GetConsumerPowerShapingParameters(ctx, consumerId)
	require.NoError(t, err)
	require.False(t, powerShapingParameters.AllowInactiveVals)
	require.Zero(t, powerShapingParameters.Top_N)

	// (4a) the provider's active consensus set, computed by the real keeper code: [B]
	activeValidators, err := providerKeeper.GetLastProviderConsensusActiveValidators(ctx)
	require.NoError(t, err)
	require.Len(t, activeValidators, 1)
	require.Equal(t, valB.GetOperator(), activeValidators[0].GetOperator(), "the provider's active set is {B}")

	activeSet := map[string]struct{}{}
	for _, v := range activeValidators {
		activeSet[string(consAddrOf(v).Address)] = struct{}{}
	}

	// (4b) the consumer's next validators, computed by the real keeper code from the bonded
	// validators in staking order [B, A] (exactly what QueueVSCPackets passes down)
	bondedValidators := append([]stakingtypes.Validator{}, stakingOrder...)
	nextValidators, err := providerKeeper.ComputeNextValidators(ctx, consumerId, bondedValidators, powerShapingParameters, 0)
	require.NoError(t, err)
	require.NotEmpty(t, nextValidators, "an opted-in active validator exists, so the consumer set cannot be empty")

	name := func(consAddr []byte) string {
		switch {
		case bytes.Equal(consAddr, consAddrA.Address):
			return "A"
		case bytes.Equal(consAddr, consAddrB.Address):
			return "B"
		}
		return "?"
	}
	for _, v := range nextValidators {
		t.Logf("consumer validator: %s (%s) power %d", name(v.ProviderConsAddr),
			sdk.ConsAddress(v.ProviderConsAddr).String(), v.Power)
	}
	t.Logf("provider active set: {%s}", name(consAddrOf(activeValidators[0]).Address))

	// (5) PROPERTY: AllowInactiveVals == false  =>  consumer validators ⊆ provider active set
	for _, v := range nextValidators {
		_, isActive := activeSet[string(v.ProviderConsAddr)]
		require.True(t, isActive,
			"consumer %s does not allow inactive validators, but its next validator set contains validator %s (%s), "+
				"which is not in the provider's active consensus set {%s}",
			consumerId, name(v.ProviderConsAddr), sdk.ConsAddress(v.ProviderConsAddr).String(),
			name(consAddrOf(activeValidators[0]).Address))
	}
}
