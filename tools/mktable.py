#!/usr/bin/env python3
# Rewrites the per-property table in DESIGN.md (between the TABLE markers) from the evidence files.
import json,glob,re
rows=['| property | claimed obligations | discharged | functions / sweeps under contract | wall s (quick) |','|---|---|---|---|---|']
for f in sorted(glob.glob('/verif/evidence/C*.json')):
    d=json.load(open(f)); c=d['coverage']
    fn=[x.split('.')[-1] if not x.startswith('sweep') else x for x in c.get('functions_under_contract',[])]
    kf=c.get('known_findings_hit') or []
    extra=' (+%d known finding)'%len(kf) if kf else ''
    rows.append('| %s | %d%s | %d | %d: %s | %d |'%(d['property_id'],c['obligations'],extra,c['discharged'],len(fn),', '.join(fn),round(d['wall_s'])))
tbl='\n'.join(rows)
p='/verif/DESIGN.md'; s=open(p).read()
a='<!-- TABLE:BEGIN -->'; b='<!-- TABLE:END -->'
if a in s:
    s=s[:s.index(a)+len(a)]+'\n'+tbl+'\n'+s[s.index(b):]
open(p,'w').write(s)
print(tbl[:300])
