#!/usr/bin/env python3
# splits the goal (assert (not (and (=> H1 G1) ...))) of an icsvc query and checks each path: H consistent? H => G ?
import sys,subprocess,re
f=sys.argv[1]; s=open(f).read()
i=s.rindex('(assert (not ')
pre=s[:i]; body=s[i+len('(assert (not '):]
body=body[:body.rindex('(check-sat)')].strip()
body=body[:-2].strip() if body.endswith('))') else body
def split(b):
    out=[];d=0;cur=''
    for ch in b:
        if ch=='(':d+=1
        if ch==')':d-=1
        if ch==' ' and d==0:
            if cur: out.append(cur);cur=''
        else:cur+=ch
    if cur: out.append(cur)
    return out
if body.startswith('(and '): parts=split(body[5:-1])
else: parts=[body]
def run(t,solver='z3-new'):
    open('/tmp/sp.smt2','w').write(t)
    try: return subprocess.run([solver,'-T:15','/tmp/sp.smt2'],capture_output=True,text=True,timeout=20).stdout.split('\n')[0]
    except Exception as e: return 'timeout'
for k,p in enumerate(parts):
    if not p.startswith('(=> '): print(k,'nonimpl',p[:80]); continue
    hs=split(p[4:-1]); H=hs[0]; G=' '.join(hs[1:])
    r1=run(pre+'(assert %s)\n(check-sat)\n'%H)
    r2=run(pre+'(assert %s)\n(assert (not %s))\n(check-sat)\n'%(H,G))
    print(k,'H:',r1,' H&!G:',r2, ' goal:',G[:100])
