#!/bin/bash
# usage: tryseed2.sh <seed-name e.g. C04-A> <prop> [only-regexp] [timeout]
# Applies /verif/seeded/<name>/patch.diff to a scratch worktree of /repo's HEAD (which carries the contract hook files)
# and runs the property check against that worktree. /repo itself is not touched. Output dir: /tmp/st/out-<name>.
name="$1"; prop="$2"; only="${3:-}"; to="${4:-40}"
patch=${PATCH:-/verif/seeded/$name/patch.diff}
[ -f "$patch" ] || patch=/tmp/seed/out/${name%-*}/${name#*-}/patch.diff
wt=/tmp/st/$name-$prop
mkdir -p /tmp/st; rm -rf "$wt"; git -C /repo worktree prune
git -C /repo worktree add -q --detach "$wt" HEAD || exit 3
# uncommitted contract edits travel too
for f in x/ccv/provider/keeper/verif_contracts.go x/ccv/consumer/keeper/verif_contracts.go x/ccv/types/verif_contracts.go x/ccv/provider/types/verif_contracts.go; do cp /repo/$f "$wt/$f" 2>/dev/null; done
( cd "$wt" && git apply "$patch" ) || { echo "PATCH FAILED $name"; git -C /repo worktree remove --force "$wt"; exit 4; }
bin=/verif/bin/icsvc; [ -x /verif/bin/icsvc.new ] && bin=/verif/bin/icsvc.new
args=(check --repo "$wt" --prop "$prop" --out /tmp/st/out-$name --timeout "$to")
[ -n "$only" ] && args+=(--only "$only")
echo "=== SEED $name vs $prop"
$bin "${args[@]}" 2>&1 | grep -E "VIOLATION|ENGINE|obligation|claimed" | head -${TAILN:-12}
git -C /repo worktree remove --force "$wt"
