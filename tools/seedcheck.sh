#!/bin/bash
# usage: seedcheck.sh <seed-out-dir e.g. /tmp/seed/out/C04/A> <name e.g. C04-A>
# Confirms a seeded change: demo passes on the pinned tree, fails with the change, existing suites pass with the change.
set -u
src="$1"; name="$2"
export GOFLAGS=-mod=mod GOPROXY=off
wt=/tmp/sv/$name
log=/tmp/sv/$name.log
mkdir -p /tmp/sv
rm -rf "$wt"; git -C /repo worktree prune
git -C /repo worktree add -q --detach "$wt" d13f82c || exit 3
cd "$wt"
demo_cmd=$(python3 -c "import json;print(json.load(open('$src/meta.json'))['demo_cmd'])")
# copy demo files
for f in "$src"/demo/*_test.go; do
  d=$(head -3 "$f" | grep -o 'copy to: *[^ ]*' | head -1 | sed 's/copy to: *//')
  [ -z "$d" ] && d=x/ccv/provider/keeper/
  cp "$f" "$wt/$d/"
done
pk=$(for f in "$src"/demo/*_test.go; do head -3 "$f" | grep -o 'copy to: *[^ ]*' | head -1 | sed 's/copy to: *//'; done | sort -u | head -1)
run=$(echo "$demo_cmd" | grep -o "\-run [^ ]*" | head -1 | sed "s/-run //; s/'//g")
echo "== demo on pinned tree ($pk $run)" > "$log"
go test -vet=off -count=1 -timeout 20m ./$pk -run "$run" >> "$log" 2>&1; r0=$?
git apply "$src/patch.diff" || { echo "PATCH FAILED" >> "$log"; exit 4; }
echo "== demo with change" >> "$log"
go test -vet=off -count=1 -timeout 20m ./$pk -run "$run" >> "$log" 2>&1; r1=$?
# remove demo files, run existing suites
for f in "$src"/demo/*_test.go; do d=$(head -3 "$f" | grep -o 'copy to: *[^ ]*' | head -1 | sed 's/copy to: *//'); [ -z "$d" ] && d=x/ccv/provider/keeper/; rm -f "$wt/$d/$(basename $f)"; done
echo "== existing suites with change" >> "$log"
go build ./... >> "$log" 2>&1; rb=$?
go test -vet=off -count=1 -p 3 -timeout 25m ./x/... ./app/... 2>&1 | grep -v "no test files" >> "$log"; r2=${PIPESTATUS[0]}
go test -vet=off -count=1 -p 3 -timeout 25m ./tests/integration/... >> "$log" 2>&1; r3=$?
echo "RESULT $name demo_pinned=$r0 demo_changed=$r1 build=$rb suite_x_app=$r2 suite_integration=$r3" | tee -a "$log" >> /tmp/sv/RESULTS.txt
cd /; git -C /repo worktree remove --force "$wt"
