#!/usr/bin/env python3
# Regenerates MANIFEST.json from specs/props/*.json (claimed properties) and specs/manifest_meta.json.
import json, glob, os
props=[json.loads(l) for l in open('/verif/properties.jsonl')]
import subprocess
meta=json.load(open('/verif/specs/manifest_meta.json'))
meta['hook_commits']=subprocess.run(['git','-C','/repo','log','--reverse','--format=%h','--grep=^hook:','d13f82c..HEAD'],capture_output=True,text=True).stdout.split()
claimed=sorted(os.path.basename(f)[:-5] for f in glob.glob('/verif/specs/props/C*.json'))
claimed=[c for c in claimed if c in meta.get('claim',claimed)]
checks=[]
for p in props:
    pid=p['id']
    if pid not in claimed: continue
    m=meta['props'].get(pid,{})
    checks.append({
      "property_id":pid,
      "quick_cmd":f"./check {pid} quick",
      "thorough_cmd":f"./check {pid} thorough",
      "evidence_file":f"/verif/evidence/{pid}.json",
      "replay_cmd_template":"./check --replay {path}",
      "engine":"icsvc",
      "level_claimed":{"category":"proof","text":m.get('text','Contracts on the real functions (comment-only contract files behind build tag verif), verification conditions generated from go/ssa of the current tree, discharged by z3/cvc5 for all inputs and loop iterations.'),"design_ref":m.get('design_ref','DESIGN.md section 4 ('+pid+')')},
      "level_note":m.get('note','Trusted: icsvc VC generator, SMT solvers, go/ssa front end, assumed contracts of SDK/IBC/CometBFT dependencies, codec round trips, KV-store semantics; see evidence.assumptions and DESIGN.md section 3.'),
      "technique":"contract-based deductive verification of the real Go code: requires/ensures/loop invariants in comment-only contract files, verification conditions by symbolic execution of go/ssa with loop cutting, discharged by z3/cvc5"+(" + syntactic inventory sweep (labelled, not counted as proof)" if pid in ("C13","C18") else "")})
na=[{"property_id":p['id'],"reason":meta['na'].get(p['id'],'check not built yet (see DESIGN.md section 4 for the plan)')} for p in props if p['id'] not in claimed]
man={"version":1,
 "setup_cmd":"cd /verif && ./setup.sh",
 "hooks":{"guard":"verif","enable":"-tags verif (icsvc loads /repo with this build tag; hook files are comment-only contract files verif_contracts.go)","baseline_off_cmd":"cd /repo && GOFLAGS=-mod=mod GOPROXY=off go test -vet=off -count=1 -timeout 25m ./...","source_commits":meta.get('hook_commits',[]),"add_only":True},
 "engines":[{"name":"icsvc","path":"/verif/icsvc","serves_properties":claimed,"kind_free_text":"verification-condition generator for Go (go/ssa symbolic execution with loop invariants and function contracts) + SMT back ends z3 4.8.12 / z3 5.1.0 / cvc5 1.0"}],
 "checks":checks,
 "not_applicable":na,
 "notes":"Contract-based deductive verification of the real Go code; see DESIGN.md. Known findings and fixed defects: /verif/known_findings.txt (two fix: commits in /repo: 489d42f, 2ab3991). Seeded changes: /verif/seeded."}
json.dump(man,open('/verif/MANIFEST.json','w'),indent=1)
print("claimed",claimed)
