#!/bin/bash
# Runs every kept seeded change (/verif/seeded/<id>/patch.diff) against the check of its own property, each in a
# scratch worktree of /repo's HEAD (tools/tryseed2.sh), N at a time (default 3). Results: /tmp/st/res-<seed>.txt.
# A seed counts as caught when its run prints a VIOLATION line for an obligation the change touches.
N=${1:-3}
mkdir -p /tmp/st
ls -d /verif/seeded/*/ | xargs -n1 basename | grep -E '^C[0-9]+-' > /tmp/st/seedlist.txt
cat /tmp/st/seedlist.txt | xargs -P "$N" -I{} bash -c 'n={}; p=${n%%-*}; TAILN=40 /verif/tools/tryseed2.sh $n $p "" 90 > /tmp/st/res-$n.txt 2>&1'
for f in /tmp/st/res-*.txt; do n=$(basename $f .txt); echo "${n#res-} violations=$(grep -c '^VIOLATION' $f) engine=$(grep -c '^ENGINE' $f)"; done
