#!/bin/bash
# usage: tryseed.sh <patch> <prop> [only-regexp] [tail-lines] : applies a patch to /repo, runs the check, reverts the patch.
cd /repo && git apply "$1" || exit 3
cd /verif && ./bin/icsvc check --prop "$2" ${3:+--only "$3"} --timeout 40 2>&1 | grep -v "^  obligation" | tail -${4:-6}
cd /repo && git apply -R "$1"
